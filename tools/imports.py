"""Consistency of imported contracts.

A unit may assume the contract of a function that another unit proves (cosets assumes FreeWord / IntPartition contracts).
The importing template marks each such stub with

    //@@ import <unit> :: <region label>          (label as printed by assemble.py, e.g. `impl IntPartition::find`)

on the line directly above the stub's attributes / signature.  This module compares the clause lists mechanically:
every `ensures` clause of the stub must literally be one of the exporter's `ensures` clauses (the importer may use fewer),
and every `requires` clause of the exporter must literally be one of the stub's `requires` clauses (the importer may demand
more).  Whitespace is ignored; nothing else is.
"""
import re
import os
import sys

sys.path.insert(0, os.path.dirname(os.path.abspath(__file__)))
import assemble as asm


def split_clauses(text):
    out, depth, cur = [], 0, ''
    for ch in text:
        if ch in '([{|' and not (ch == '|' and depth and cur.rstrip().endswith('|')):
            pass
        if ch in '([{':
            depth += 1
        elif ch in ')]}':
            depth -= 1
        if ch == ',' and depth == 0:
            out.append(cur); cur = ''
        else:
            cur += ch
    if cur.strip():
        out.append(cur)
    return [re.sub(r'\s+', '', re.sub(r'//.*', '', c)) for c in out if re.sub(r'\s+', '', re.sub(r'//.*', '', c))]


def contract_of(lines):
    """lines: text of a fn from its signature up to the body's opening brace -> (requires[], ensures[])"""
    txt = '\n'.join(re.sub(r'//.*', '', l) for l in lines)
    # cut at the first `{` that opens the body: the first `{` at depth 0 after the header that is on a line of its own or ends one
    m = re.search(r'\brequires\b|\bensures\b', txt)
    if not m:
        return [], []
    head = txt[m.start():]
    # body start: a line consisting of `{` (all templates put it there) or ` {` at end before unimplemented
    b = re.search(r'^\s*\{', head, flags=re.M)
    if b:
        head = head[:b.start()]
    else:
        b2 = head.rfind('{')
        head = head[:b2]
    req = ens = ''
    parts = re.split(r'\b(requires|ensures|decreases)\b', head)
    k = 1
    while k < len(parts):
        if parts[k] == 'requires':
            req += parts[k + 1]
        elif parts[k] == 'ensures':
            ens += parts[k + 1]
        k += 2
    return split_clauses(req), split_clauses(ens)


def impl_ranges(text):
    """[(start, end, TypeName)] of the top-level `impl ... Type {` blocks of a template (methods are keyed by their type: the same
    method name on different types, e.g. CosetTable::wf and PartialDSet::wf, are different spec functions)"""
    out = []
    for m in re.finditer(r'^impl\b[^\n{]*', text, flags=re.M):
        head = re.sub(r'<[^<>]*>', '', re.sub(r'<[^<>]*>', '', m.group(0)))
        t = re.search(r'\bfor\s+&?\s*(\w+)', head) or re.match(r'impl\s+&?\s*(\w+)', head)
        k = text.find('{', m.end() - 1)
        if not t or k < 0:
            continue
        depth, j = 0, k
        while j < len(text):
            if text[j] == '{':
                depth += 1
            elif text[j] == '}':
                depth -= 1
                if depth == 0:
                    break
            j += 1
        out.append((k, j, t.group(1)))
    return out


def spec_defs(text):
    """{key: normalised definition text} of every `spec fn NAME` with a body in a template; key = NAME for free functions and
    Type::NAME for methods"""
    out = {}
    impls = impl_ranges(text)
    for m in re.finditer(r'\bspec fn (\w+)', text):
        k = text.find('{', m.end())
        semi = text.find(';', m.end())
        if k < 0 or (0 <= semi < k):
            continue        # uninterp / declaration only
        depth, j = 0, k
        while j < len(text):
            if text[j] == '{':
                depth += 1
            elif text[j] == '}':
                depth -= 1
                if depth == 0:
                    break
            j += 1
        body = text[m.start():j + 1]
        owner = [t for a, b, t in impls if a < m.start() < b]
        key = ('%s::%s' % (owner[0], m.group(1))) if owner else m.group(1)
        out.setdefault(key, re.sub(r'\s+', '', re.sub(r'//.*', '', body)))
    return out


def trait_defs(text):
    """name -> whitespace- and comment-free text of every `pub trait Name ... { ... }` declaration"""
    out = {}
    text = re.sub(r'//.*', '', text)
    for m in re.finditer(r'\bpub\s+trait\s+(\w+)', text):
        j = text.index('{', m.end())
        depth = 0
        while j < len(text):
            if text[j] == '{':
                depth += 1
            elif text[j] == '}':
                depth -= 1
                if depth == 0:
                    break
            j += 1
        out[m.group(1)] = re.sub(r'\s+', '', text[m.start():j + 1])
    return out


def compare_spec_fns(clauses, imp_defs, exp_defs, what):
    """every spec function mentioned (transitively) by imported clauses and defined in BOTH units must have the same definition"""
    problems, seen = [], set()
    todo = set(re.findall(r'\b[a-z_]\w*\b', ' '.join(clauses)))
    while todo:
        n = todo.pop()
        if n in seen:
            continue
        seen.add(n)
        # a mentioned name stands for the free function of that name and for every method of that name (receiver types are not resolved)
        for key in [k for k in imp_defs if k == n or k.endswith('::' + n)]:
            if key in exp_defs:
                if imp_defs[key] != exp_defs[key]:
                    problems.append('%s: spec fn `%s` is defined differently in the importing and the exporting unit' % (what, key))
            todo |= set(re.findall(r'\b[a-z_]\w*\b', imp_defs[key]))
    return problems


def check_imports(template_path, all_units):
    """-> list of problems (strings)"""
    problems = []
    lines = open(template_path).read().split('\n')
    for k, l in enumerate(lines):
        s = l.strip()
        if s.startswith('//@@ same-spec '):
            # //@@ same-spec <unit> :: name ...   -- spec functions this unit states its OWN contracts with and that are meant to be the
            # exporter's (so that `valid` in a precondition here is the `valid` proved there): textual identity, transitively
            unit, _, names = s[len('//@@ same-spec '):].partition('::')
            unit = unit.strip()
            if unit not in all_units:
                problems.append('same-spec of unknown unit %s' % unit); continue
            imp, exp = spec_defs(open(template_path).read()), spec_defs(open(all_units[unit]['path']).read())
            for n in names.split():
                if not any(k2 == n or k2.endswith('::' + n) for k2 in imp) or not any(k2 == n or k2.endswith('::' + n) for k2 in exp):
                    problems.append('same-spec %s :: %s: not defined in both units' % (unit, n))
            problems += compare_spec_fns(names.split(), imp, exp, 'same-spec %s' % unit)
            continue
        if s.startswith('//@@ same-trait '):
            # //@@ same-trait <unit> :: Name ...   -- trait declarations (with the contracts on their methods) this unit repeats from
            # another unit: what is proved against the declaration here is used against the declaration there, so the two texts must agree
            unit, _, names = s[len('//@@ same-trait '):].partition('::')
            unit = unit.strip()
            if unit not in all_units:
                problems.append('same-trait of unknown unit %s' % unit); continue
            imp, exp = trait_defs(open(template_path).read()), trait_defs(open(all_units[unit]['path']).read())
            for n in names.split():
                if n not in imp or n not in exp:
                    problems.append('same-trait %s :: %s: not declared in both units' % (unit, n))
                elif imp[n] != exp[n]:
                    problems.append('same-trait %s :: %s: the two declarations differ' % (unit, n))
            # the spec functions the declarations mention must agree as well
            both = ' '.join(imp.get(n, '') for n in names.split())
            problems += compare_spec_fns([both], spec_defs(open(template_path).read()), spec_defs(open(all_units[unit]['path']).read()),
                                         'same-trait %s' % unit)
            continue
        if not s.startswith('//@@ import '):
            continue
        unit, _, label = s[len('//@@ import '):].partition('::')
        unit, label = unit.strip(), label.strip()
        if unit not in all_units:
            problems.append('import of unknown unit %s' % unit); continue
        # stub text: from next line to the line containing the body start
        stub = []
        for j in range(k + 1, min(k + 40, len(lines))):
            stub.append(lines[j])
            if re.search(r'\{\s*(unimplemented!\(\)|[^}]*)\s*;?\s*\}\s*$', lines[j]) or lines[j].strip() == '{' or lines[j].strip().endswith('{}'):
                break
        sreq, sens = contract_of(stub)
        # exporter region
        u, props, chunks = asm.parse_template(all_units[unit]['path'])
        reg = [c for kind, c in chunks if kind == 'region' and asm.rustlex.squeeze(c.label) == asm.rustlex.squeeze(label)]
        if not reg:
            problems.append('import %s :: %s: no such region in the exporting unit' % (unit, label)); continue
        ereq, eens = contract_of(reg[0].lines)
        for c in sens:
            if c not in eens:
                problems.append('import %s :: %s: assumed ensures clause `%s` is not proved by the exporter' % (unit, label, c))
        for c in ereq:
            if c not in sreq:
                problems.append('import %s :: %s: exporter requires `%s` which the importer does not' % (unit, label, c))
        problems += compare_spec_fns(sens + sreq, spec_defs(open(template_path).read()), spec_defs(open(all_units[unit]['path']).read()),
                                     'import %s :: %s' % (unit, label))
    return problems


if __name__ == '__main__':
    sys.path.insert(0, os.path.dirname(os.path.abspath(__file__)))
    import check
    units = check.unit_templates()
    for u, i in units.items():
        for p in check_imports(i['path'], units):
            print(u, ':', p)
