#!/usr/bin/env python3
"""setup: nothing to build (python + pre-installed verus/kani); checks the tools are present and warms Verus's cache."""
import os, shutil, subprocess, sys, tempfile
ok = True
for t in ('verus', 'cargo'):
    if not shutil.which(t):
        print('missing tool:', t); ok = False
d = tempfile.mkdtemp(prefix='verif-setup.', dir=os.environ.get('TMPDIR', '/var/tmp'))
try:
    open(os.path.join(d, 'w.rs'), 'w').write('use vstd::prelude::*;\nverus!{ proof fn t() ensures 1 + 1 == 2int {} }\nfn main(){}\n')
    p = subprocess.run(['verus', 'w.rs'], cwd=d, capture_output=True, text=True)
    print(p.stdout.strip().split('\n')[-1] if p.stdout else p.stderr[-200:])
    ok = ok and p.returncode == 0
finally:
    shutil.rmtree(d, ignore_errors=True)
os.makedirs(os.path.join(os.path.dirname(os.path.dirname(os.path.abspath(__file__))), 'evidence'), exist_ok=True)
sys.exit(0 if ok else 1)
