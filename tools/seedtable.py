#!/usr/bin/env python3
"""seedtable.py: rewrites the table between <!-- seedtable:begin --> and <!-- seedtable:end --> in DESIGN.md from seeded/*/meta.json
(outcomes recorded by `tools/selftest.py --record`)."""
import glob, json, os, re
VERIF = os.path.dirname(os.path.dirname(os.path.abspath(__file__)))


def short(x):
    return x.replace('trait DSet: Sized::', 'DSet::').replace('impl ', '')[-70:]


def main():
    rows = ['| change | what it breaks (author\'s words, shortened) | caught by |', '|---|---|---|']
    n = {'verifier': 0, 'replay': 0, 'bounded': 0, 'missed': 0}
    for d in sorted(glob.glob(os.path.join(VERIF, 'seeded', 'C*'))):
        m = json.load(open(d + '/meta.json'))
        o = m.get('failed_obligations_when_recorded', {})
        ded = [x.split('::', 1)[1] for x in o.get('deductive', [])]
        kani = [x for x in ded if re.match(r'^p\w*::|^f\d+::', x)]
        unv = [x for x in ded if x.endswith('::unverifiable') or x.endswith('::assumed_changed')]
        real = [x for x in ded if x not in kani and x not in unv]
        how = []
        if real:
            how.append('**Verus obligation** ' + ', '.join('`%s`' % short(x) for x in real[:3]))
        if kani:
            how.append('Kani harnesses (%d) with counterexample' % len(kani))
        if unv and not real:
            how.append('changed function left the verifier\'s subset (`%s`) -> concrete replay' % short(unv[0].rsplit('::', 1)[0]))
        if o.get('bounded'):
            how.append('bounded stand-in `%s`' % o['bounded'][0].replace('bounded::', '').replace('::bounded', ''))
        if m.get('expected') != 'detected':
            how = ['**not detected** (%s)' % m.get('expected')]
            n['missed'] += 1
        elif real or kani:
            n['verifier'] += 1
        elif unv:
            n['replay'] += 1
        else:
            n['bounded'] += 1
        what = (m.get('breaks') or '').split('. ')[0][:170].replace('|', '/')
        rows.append('| %s | %s | %s%s |' % (os.path.basename(d), what, '; '.join(how), ' (thorough tier only)' if m.get('tier') == 'thorough' else ''))
    rows.append('')
    rows.append('Decided by the verifier alone (a named Verus/Kani obligation that is discharged on the unchanged tree fails): %d; function rewritten '
                'into a form the front end rejects, decided by concrete replay of its postcondition on the real code: %d; in code no contract '
                'reaches, caught by a bounded stand-in only: %d; not detected: %d.' % (n['verifier'], n['replay'], n['bounded'], n['missed']))
    ben = {}
    for d in sorted(glob.glob(os.path.join(VERIF, 'seeded', 'benign-*'))):
        m = json.load(open(d + '/meta.json'))
        o = m.get('outcome_when_recorded', 'not recorded')
        ben.setdefault(o, []).append(os.path.basename(d).replace('benign-', ''))
    rows.append('')
    rows.append('Behaviour-preserving refactorings (`seeded/benign-*`, %d): ' % sum(len(v) for v in ben.values())
                + '; '.join('%s: %d%s' % (k, len(v), (' (%s)' % ', '.join(v)) if len(v) <= 6 else '') for k, v in sorted(ben.items())) + '.')
    p = os.path.join(VERIF, 'DESIGN.md')
    s = open(p).read()
    a, b = s.index('<!-- seedtable:begin -->'), s.index('<!-- seedtable:end -->')
    s = s[:a] + '<!-- seedtable:begin -->\n' + '\n'.join(rows) + '\n' + s[b:]
    open(p, 'w').write(s)


if __name__ == '__main__':
    main()
