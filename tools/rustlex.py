"""Minimal Rust lexer + item locator used by the extractor.

It understands exactly what is needed to find an item in a source file and match its braces:
line/block comments (nested), string / raw string / byte string literals, char literals vs lifetimes.
Everything else is returned as single-character punctuation or identifier/number words.
No parsing beyond brace matching is attempted.
"""
import re

IDENT = re.compile(r'[A-Za-z_][A-Za-z0-9_]*')
NUM = re.compile(r'[0-9][A-Za-z0-9_]*(\.[0-9][A-Za-z0-9_]*)?')


class Tok:
    __slots__ = ('kind', 'text', 'start', 'end')

    def __init__(self, kind, text, start, end):
        self.kind, self.text, self.start, self.end = kind, text, start, end

    def __repr__(self):
        return '%s(%r@%d)' % (self.kind, self.text, self.start)


def lex(src):
    """-> list of Tok; kinds: ws, comment, str, char, life, id, num, p (punct)"""
    toks = []
    i, n = 0, len(src)
    while i < n:
        c = src[i]
        if c.isspace():
            j = i
            while j < n and src[j].isspace():
                j += 1
            toks.append(Tok('ws', src[i:j], i, j)); i = j; continue
        if src.startswith('//', i):
            j = src.find('\n', i)
            if j < 0:
                j = n
            toks.append(Tok('comment', src[i:j], i, j)); i = j; continue
        if src.startswith('/*', i):
            depth, j = 1, i + 2
            while j < n and depth:
                if src.startswith('/*', j):
                    depth += 1; j += 2
                elif src.startswith('*/', j):
                    depth -= 1; j += 2
                else:
                    j += 1
            toks.append(Tok('comment', src[i:j], i, j)); i = j; continue
        # raw strings r"..", r#".."#, br#".."#
        m = re.match(r'b?r(#*)"', src[i:i + 40])
        if m:
            hashes = m.group(1)
            close = '"' + hashes
            j = src.find(close, i + m.end())
            j = n if j < 0 else j + len(close)
            toks.append(Tok('str', src[i:j], i, j)); i = j; continue
        if c == '"' or (c == 'b' and i + 1 < n and src[i + 1] == '"'):
            j = i + (2 if c == 'b' else 1)
            while j < n and src[j] != '"':
                j += 2 if src[j] == '\\' else 1
            j += 1
            toks.append(Tok('str', src[i:j], i, j)); i = j; continue
        if c == "'" or (c == 'b' and i + 1 < n and src[i + 1] == "'"):
            k = i + (1 if c == 'b' else 0)
            # char literal: '\x', 'c' ; lifetime: 'ident not followed by '
            if src[k + 1:k + 2] == '\\':
                j = k + 2
                while j < n and src[j] != "'":
                    j += 1
                j += 1
                toks.append(Tok('char', src[i:j], i, j)); i = j; continue
            if k + 2 < n and src[k + 2] == "'":
                j = k + 3
                toks.append(Tok('char', src[i:j], i, j)); i = j; continue
            m = IDENT.match(src, k + 1)
            if m:
                toks.append(Tok('life', src[i:m.end()], i, m.end())); i = m.end(); continue
            toks.append(Tok('p', c, i, i + 1)); i += 1; continue
        m = IDENT.match(src, i)
        if m:
            toks.append(Tok('id', m.group(0), i, m.end())); i = m.end(); continue
        m = NUM.match(src, i)
        if m:
            # do not swallow `0..n`: "0." followed by "." is a range
            txt = m.group(0)
            if '.' in txt and src[i + txt.index('.') + 1:i + txt.index('.') + 2] == '.':
                txt = txt[:txt.index('.')]
            elif '.' in txt and not txt.split('.')[1][:1].isdigit():
                txt = txt[:txt.index('.')]
            toks.append(Tok('num', txt, i, i + len(txt))); i += len(txt); continue
        toks.append(Tok('p', c, i, i + 1)); i += 1
    return toks


def code_toks(toks):
    return [t for t in toks if t.kind not in ('ws', 'comment')]


OPEN = {'{': '}', '(': ')', '[': ']'}
CLOSE = {'}', ')', ']'}


def match_close(ct, k):
    """ct: code tokens; k: index of an opening bracket token -> index of matching close"""
    depth = 0
    for j in range(k, len(ct)):
        t = ct[j]
        if t.kind == 'p':
            if t.text in OPEN:
                depth += 1
            elif t.text in CLOSE:
                depth -= 1
                if depth == 0:
                    return j
    raise ValueError('unbalanced bracket at offset %d' % ct[k].start)


def norm_ws(s):
    return re.sub(r'\s+', ' ', s).strip()


def squeeze(s):
    """remove all whitespace (used to compare impl headers)"""
    return re.sub(r'\s+', '', s)


class Item:
    def __init__(self, kind, name, header, start, end, body_open, container, sig_start=None):
        self.sig_start = sig_start if sig_start is not None else start   # after attributes
        self.kind = kind            # fn | struct | impl | trait | enum | mod | const | type
        self.name = name
        self.header = header        # normalised header text (up to body brace)
        self.start = start          # offset of first char (including attributes/docs/pub)
        self.end = end              # offset one past last char
        self.body_open = body_open  # offset of '{' (or None)
        self.container = container  # enclosing Item or None
        self.children = []


ITEM_KW = ('fn', 'struct', 'impl', 'trait', 'enum', 'mod', 'const', 'static', 'type', 'use', 'macro_rules')


def parse_items(src):
    """very small item-level parser: returns list of top-level Items with children for impl/trait/mod"""
    toks = lex(src)
    ct = code_toks(toks)

    def parse_block(lo, hi, container):
        items = []
        k = lo
        while k < hi:
            start_k = k
            # attributes
            while k < hi and ct[k].text == '#':
                j = k + 1
                if j < hi and ct[j].text == '!':
                    j += 1
                if j < hi and ct[j].text == '[':
                    k = match_close(ct, j) + 1
                else:
                    break
            # qualifiers
            q = k
            while q < hi and ct[q].kind == 'id' and ct[q].text in ('pub', 'unsafe', 'async', 'default', 'extern'):
                q += 1
                if q < hi and ct[q - 1].text == 'pub' and ct[q].text == '(':
                    q = match_close(ct, q) + 1
                if q < hi and ct[q - 1].text == 'extern' and ct[q].kind == 'str':
                    q += 1
            # `const fn` / `const NAME`
            if q < hi and ct[q].text == 'const' and q + 1 < hi and ct[q + 1].text == 'fn':
                q += 1
            if q >= hi:
                break
            kw = ct[q].text if ct[q].kind == 'id' else None
            if kw not in ITEM_KW:
                # not an item start: skip one token (or a bracket group)
                if ct[k].kind == 'p' and ct[k].text in OPEN:
                    k = match_close(ct, k) + 1
                else:
                    k = max(k, start_k) + 1
                continue
            # find end of item: first `;` or `{...}` at depth 0 (parens/brackets skipped)
            j = q + 1
            body_open = None
            end_j = None
            while j < hi:
                t = ct[j]
                if t.kind == 'p' and t.text in ('(', '['):
                    j = match_close(ct, j) + 1; continue
                if t.kind == 'p' and t.text == '{':
                    body_open = j
                    end_j = match_close(ct, j)
                    break
                if t.kind == 'p' and t.text == ';':
                    end_j = j
                    break
                j += 1
            if end_j is None:
                break
            # struct Foo(..); / struct Foo; handled by ';'
            name = None
            if kw in ('fn', 'struct', 'trait', 'enum', 'mod', 'const', 'static', 'type'):
                if q + 1 < hi and ct[q + 1].kind == 'id':
                    name = ct[q + 1].text
            hdr_end = ct[body_open].start if body_open is not None else ct[end_j].start
            header = norm_ws(src[ct[q].start:hdr_end])
            it = Item(kw, name, header, ct[start_k].start, ct[end_j].end,
                      ct[body_open].start if body_open is not None else None, container, ct[k].start)
            if kw in ('impl', 'trait', 'mod') and body_open is not None:
                it.children = parse_block(body_open + 1, end_j, it)
            items.append(it)
            k = end_j + 1
        return items

    return parse_items_result(parse_block(0, len(ct), None))


def parse_items_result(items):
    return items


def walk(items):
    for it in items:
        yield it
        for c in walk(it.children):
            yield c


def find_item(src, container, kind, name, items=None):
    """container: None / '-' for top level, else an impl/trait header such as
    'impl Mul<&FreeWord> for &FreeWord' (whitespace-insensitive, `where` clause optional).
    Returns list of matching Items (normally exactly one)."""
    items = items if items is not None else parse_items(src)
    out = []
    if container in (None, '-', ''):
        for it in items:
            if it.kind == kind and it.name == name:
                out.append(it)
        return out
    want = squeeze(container)
    for it in walk(items):
        if it.kind in ('impl', 'trait', 'mod'):
            h = squeeze(it.header)
            h0 = squeeze(re.split(r'\bwhere\b', it.header)[0])
            if h == want or h0 == want:
                for c in it.children:
                    if c.kind == kind and c.name == name:
                        out.append(c)
    return out


if __name__ == '__main__':
    import sys
    src = open(sys.argv[1]).read()
    for it in walk(parse_items(src)):
        if it.kind in ('fn', 'struct', 'impl', 'trait'):
            c = it.container.header if it.container else '-'
            print('%-6s %-28s in %-60s lines %d-%d' % (it.kind, it.name or it.header[:28], c[:60],
                                                     src.count('\n', 0, it.start) + 1, src.count('\n', 0, it.end) + 1))
