#!/usr/bin/env python3
"""prints skeleton regions (begin / normalised current text / end) for locators given on the command line:
   skel.py src/x.rs 'impl Foo' fn:bar fn:baz '-' struct:Foo ..."""
import sys, os
sys.path.insert(0, os.path.dirname(os.path.abspath(__file__)))
import assemble as asm
args = sys.argv[1:]
f = args[0]; cont = '-'
for a in args[1:]:
    if ':' in a and a.split(':')[0] in ('fn', 'struct', 'trait', 'enum'):
        kind, name = a.split(':', 1)
        r = asm.Region(); r.file = f; r.container = cont; r.kind = kind; r.name = name
        nth = None
        if '#' in name:
            r.name, nth = name.split('#'); r.opts['nth'] = nth
        raw, ln = asm.extract_raw(asm.REPO, r)
        print('//@ begin %s :: %s :: %s %s%s' % (f, cont, kind, r.name, (' | nth=' + nth) if nth else ''))
        print(asm.normalise(raw, kind))
        print('//@ end\n')
    else:
        cont = a
