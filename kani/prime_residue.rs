// Kani harnesses for src/geometry/prime_residue_classes.rs.
// check.py appends this file to a scratch copy of that source file as `#[cfg(kani)] mod verif_kani { ... }`,
// so the harnesses see the private field `value` and call the real functions.  Every harness without a loop
// ranges over the full domain of its symbolic inputs and is therefore a complete proof for that modulus.
use super::*;

fn canonical<const P: i64>(v: i64) -> bool { 0 <= v && v < P }

fn any_class<const P: i64>() -> PrimeResidueClass<P> {
    let v: i64 = kani::any();
    kani::assume(0 <= v && v < P);
    PrimeResidueClass::<P> { value: v }
}

macro_rules! harnesses_for {
    ($m:ident, $p:expr) => {
        mod $m {
            use super::*;
            const P: i64 = $p;

            // from(n) is the canonical representative of n for every i64 (fails for n = -k*P before fix 8d9ef15)
            #[kani::proof]
            fn from_i64_canonical() {
                let n: i64 = kani::any();
                let r = PrimeResidueClass::<P>::from(n);
                assert!(canonical::<P>(r.value));
                // the exact value (r == n mod P) is proved for every valid P by Verus; here only the representation invariant:
                // CBMC does not finish a second 64-bit remainder on top of the one in the code (P = 61: 84 s, large P: > 300 s)
            }

            #[kani::proof]
            fn from_i32_canonical() {
                let n: i32 = kani::any();
                let r = PrimeResidueClass::<P>::from(n);
                assert!(canonical::<P>(r.value));
                // for i32 inputs the congruence r == n (mod P) is cheap enough to state bit-precisely
                assert!((r.value - (n as i64) % P) % P == 0);
            }

            #[kani::proof]
            fn add_sub_neg_are_field_ops() {
                let a = any_class::<P>();
                let b = any_class::<P>();
                let s = a + b;
                assert!(canonical::<P>(s.value) && s.value == (a.value + b.value) % P);
                let d = a - b;
                assert!(canonical::<P>(d.value) && (d.value + b.value) % P == a.value);
                let n = -a;
                assert!(canonical::<P>(n.value) && (n.value + a.value) % P == 0);
                // reference forms agree with the value forms
                assert!((&a + b) == s && (&a + &b) == s && (&a - b) == d && (&a - &b) == d && (-&a) == n);
            }
        }
    };
}

harnesses_for!(p2, 2);
harnesses_for!(p3, 3);
harnesses_for!(p61, 61);
harnesses_for!(p_large, 3037000493);

macro_rules! small_field {
    ($m:ident, $p:expr, $unwind:expr) => {
        mod $m {
            use super::*;
            const P: i64 = $p;

            #[kani::proof]
            fn mul_is_field_op() {
                let a = any_class::<P>();
                let b = any_class::<P>();
                let m = a * b;
                assert!(canonical::<P>(m.value) && m.value == (a.value * b.value) % P);
                assert!((&a * b) == m && (&a * &b) == m);
            }

            // the one loop: extended Euclid.  The unwinding assertion is on, so SUCCESS means the bound covers
            // every residue of this modulus: complete for this P.
            #[kani::proof]
            #[kani::unwind($unwind)]
            fn inverse_and_div() {
                let a = any_class::<P>();
                let b = any_class::<P>();
                kani::assume(b.value != 0);
                let i = b.inverse();
                assert!(canonical::<P>(i.value) && (i.value * b.value) % P == 1);
                let q = a / b;
                assert!(canonical::<P>(q.value) && (q.value * b.value) % P == a.value);
            }
        }
    };
}

small_field!(f2, 2, 4);
small_field!(f3, 3, 5);
small_field!(f61, 61, 12);
