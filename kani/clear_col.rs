// Kani harnesses for the ASSUMED trait contract of `<i64 as Entry>::clear_col` (src/geometry/traits.rs), instantiated at the const-generic
// `Matrix<i64, N, M>` (no heap).  tools/plugins.py appends this file to a scratch copy of src/geometry/matrix.rs as
// `#[cfg(kani)] mod verif_kani_cc { ... }`.  BOUNDED: entries range over -7..=7 (the Euclidean loop of gcdx then needs at most 6 steps;
// the unwinding assertion is on), so this is a bounded stand-in for the assumed contract, labelled bounded and never counted as proved.
use super::*;
use crate::geometry::traits::Entry;

fn small() -> i64 { let v: i8 = kani::any(); kani::assume(-7 <= v && v <= 7); v as i64 }

// column 0 of a 2 x 2 matrix: the entry below the pivot becomes zero, the pivot stays non-zero
#[kani::proof]
#[kani::unwind(8)]
fn clear_col_i64_2x2() {
    let mut a = Matrix::<i64, 2, 2> { data: [[small(), small()], [small(), small()]] };
    let mut x = Matrix::<i64, 2, 2> { data: [[1, 0], [0, 1]] };
    kani::assume(a.data[0][0] != 0);
    <i64 as Entry>::clear_col(0, 1, 0, &mut a, Some(&mut x));
    assert!(a.data[1][0] == 0);
    assert!(a.data[0][0] != 0);
}

// column 1 of a 3 x 2 matrix whose column 0 is already cleared below row 0: row 0 and column 0 are left alone
#[kani::proof]
#[kani::unwind(8)]
fn clear_col_i64_3x2_frame() {
    let (p, q) = (small(), small());
    let mut a = Matrix::<i64, 3, 2> { data: [[p, q], [0, small()], [0, small()]] };
    kani::assume(a.data[1][1] != 0);
    <i64 as Entry>::clear_col::<Matrix<i64, 3, 2>, Matrix<i64, 3, 2>>(1, 2, 1, &mut a, None);
    assert!(a.data[2][1] == 0);
    assert!(a.data[1][1] != 0);
    assert!(a.data[0][0] == p && a.data[0][1] == q);
    assert!(a.data[1][0] == 0 && a.data[2][0] == 0);
}
