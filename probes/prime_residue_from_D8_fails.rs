use vstd::prelude::*;
use std::ops::{Add, Mul, Neg, Sub};
verus! {

#[derive(Copy, Clone, Debug, PartialEq, Eq)]
pub struct PrimeResidueClass<const P: i64> {
    value: i64
}

pub open spec fn valid_p(p: int) -> bool { 2 <= p <= 3037000499 }

impl<const P: i64> PrimeResidueClass<P> {
    #[verifier::type_invariant]
    spec fn inv(self) -> bool { valid_p(P as int) ==> 0 <= self.value < P }

    pub closed spec fn val(self) -> int { self.value as int }
}

#[verifier::external_body]
proof fn domain_valid_p<const P: i64>() ensures valid_p(P as int) {}

impl<const P: i64> vstd::std_specs::convert::FromSpecImpl<i64> for PrimeResidueClass<P> {
    open spec fn obeys_from_spec() -> bool { false }
    open spec fn from_spec(n: i64) -> Self { arbitrary() }
}

impl<const P: i64> From<i64> for PrimeResidueClass<P> {
    fn from(n: i64) -> (r: Self)
        ensures valid_p(P as int) ==> r.val() == (n as int) % (P as int)
    {
        proof { domain_valid_p::<P>(); }
        PrimeResidueClass {
            value: if n >= 0 { n % P } else { n % P + P }
        }
    }
}

}
fn main() {}
