use vstd::prelude::*;
use vstd::std_specs::iter::*;
verus! {

// ======== already-verified pieces, here by contract only (see probes/dsets_partialdset_set.rs, dsyms_collect_orbits.rs) ========
struct PartialDSet { size: usize, dim: usize, op: Vec<usize> }
struct SimpleDSet { size: usize, dim: usize, op: Vec<usize>, counter: usize }

impl PartialDSet {
    uninterp spec fn sop(&self, i: int, d: int) -> int;
    spec fn wf(&self) -> bool {
        &&& self.size >= 1 && self.dim >= 1 && self.size < usize::MAX && self.dim < usize::MAX
        &&& forall|i: int, d: int| 0 <= i <= self.dim && 1 <= d <= self.size ==> {
                let e = #[trigger] self.sop(i, d);
                e == 0 || (1 <= e <= self.size && self.sop(i, e) == d)
            }
    }
    spec fn row_complete(&self, i: int) -> bool {
        forall|d: int| 1 <= d <= self.size ==> #[trigger] self.sop(i, d) != 0
    }
    spec fn complete(&self) -> bool {
        forall|i: int, d: int| 0 <= i <= self.dim && 1 <= d <= self.size ==> #[trigger] self.sop(i, d) != 0
    }
    #[verifier::external_body]
    fn new(size: usize, dim: usize) -> (r: PartialDSet)
        requires size >= 1, dim >= 1, size * (dim + 1) <= usize::MAX, size < usize::MAX, dim < usize::MAX
        ensures r.wf(), r.size == size, r.dim == dim,
            forall|i: int, d: int| 0 <= i <= dim && 1 <= d <= size ==> #[trigger] r.sop(i, d) == 0,
    { unimplemented!() }
    #[verifier::external_body]
    fn op_unchecked(&self, i: usize, d: usize) -> (r: usize)
        requires self.wf(), i <= self.dim, 1 <= d <= self.size,
        ensures r == self.sop(i as int, d as int)
    { unimplemented!() }
    #[verifier::external_body]
    fn set(&mut self, i: usize, d: usize, e: usize)
        requires old(self).wf(),
            i <= old(self).dim, 1 <= d <= old(self).size, 1 <= e <= old(self).size,
            old(self).sop(i as int, d as int) == 0 || old(self).sop(i as int, d as int) == e,
            old(self).sop(i as int, e as int) == 0 || old(self).sop(i as int, e as int) == d,
        ensures final(self).wf(), final(self).size == old(self).size, final(self).dim == old(self).dim,
            final(self).sop(i as int, d as int) == e,
            final(self).sop(i as int, e as int) == d,
            forall|j: int, c: int| 0 <= j <= old(self).dim && 1 <= c <= old(self).size && !(j == i && (c == d || c == e))
                ==> final(self).sop(j, c) == old(self).sop(j, c),
    { unimplemented!() }
    fn size(&self) -> (r: usize) ensures r == self.size { self.size }
    fn dim(&self) -> (r: usize) ensures r == self.dim { self.dim }

    // real body (dsets.rs:479) with R10 on the two ranges
    fn is_complete(&self) -> (r: bool)
        requires self.wf()
        ensures r == self.complete()
    {
        let r = (0..(self.dim()) + 1).all(|i: usize| -> (b: bool)
                requires i <= self.dim, self.wf()
                ensures b == self.row_complete(i as int)
            {
                let b = (1..(self.size()) + 1).all(|d: usize| -> (c: bool)
                    requires i <= self.dim, 1 <= d <= self.size, self.wf()
                    ensures c == (self.sop(i as int, d as int) != 0)
                    { self.op_unchecked(i, d) != 0 });
                proof {
                    if b {
                        assert forall|d: int| 1 <= d <= self.size implies #[trigger] self.sop(i as int, d) != 0 by {
                            let rg = 1..((self.size + 1) as usize);
                            assert(IteratorSpec::remaining(&rg)[d - 1] == d);
                        }
                    }
                }
                b
            });
        proof {
            if r {
                assert forall|i: int| 0 <= i <= self.dim implies #[trigger] self.row_complete(i) by {
                    let rg = 0..((self.dim + 1) as usize);
                    assert(IteratorSpec::remaining(&rg)[i] == i);
                }
                assert forall|i: int, d: int| 0 <= i <= self.dim && 1 <= d <= self.size implies #[trigger] self.sop(i, d) != 0 by {
                    assert(self.row_complete(i));
                }
            }
        }
        r
    }
}


// ---------------- SimpleDSet (complete) ----------------
impl SimpleDSet {
    uninterp spec fn sop(&self, i: int, d: int) -> int;
    spec fn wf(&self) -> bool {
        &&& self.size >= 1 && self.dim >= 1 && self.size < usize::MAX && self.dim < usize::MAX
        &&& forall|i: int, d: int| 0 <= i <= self.dim && 1 <= d <= self.size ==> {
                let e = #[trigger] self.sop(i, d);
                1 <= e <= self.size && self.sop(i, e) == d
            }
    }
    // from_partial_unchecked only moves the three fields; its contract is the identity on the table
    #[verifier::external_body]
    fn from_partial_unchecked(ds: PartialDSet, counter: usize) -> (r: SimpleDSet)
        ensures r.size == ds.size, r.dim == ds.dim,
            forall|i: int, d: int| #[trigger] r.sop(i, d) == ds.sop(i, d),
    { unimplemented!() }

    // real body (dsets.rs:507)
    fn from_partial(ds: PartialDSet, counter: usize) -> (r: SimpleDSet)
        requires ds.wf(), ds.complete()
        ensures r.wf(), r.size == ds.size, r.dim == ds.dim,
            forall|i: int, d: int| #[trigger] r.sop(i, d) == ds.sop(i, d),
    {
        assert!(ds.is_complete());
        // TODO add more consistency checks here

        let r = Self::from_partial_unchecked(ds, counter);
        proof {
            assert forall|i: int, d: int| 0 <= i <= r.dim && 1 <= d <= r.size implies ({
                let e = #[trigger] r.sop(i, d);
                1 <= e <= r.size && r.sop(i, e) == d
            }) by {
                assert(ds.sop(i, d) != 0);
            }
        }
        r
    }
    fn size(&self) -> (r: usize) ensures r == self.size { self.size }
    fn dim(&self) -> (r: usize) ensures r == self.dim { self.dim }
}

// contract of collect_orbits as verified in probes/dsyms_collect_orbits.rs
spec fn orb_ok(ds: &SimpleDSet, j: int, oi: Seq<usize>, n: int) -> bool {
    forall|x: int| 1 <= x <= ds.size ==>
        (#[trigger] oi[x]) < n && oi[ds.sop(j, x)] == oi[x] && oi[ds.sop(j + 1, x)] == oi[x]
}

#[verifier::external_body]
fn collect_orbits(ds: &SimpleDSet) -> (res: (Vec<usize>, Vec<bool>, Vec<Vec<usize>>))
    requires ds.wf()
    ensures
        res.0@.len() == res.1@.len(),
        res.2@.len() == ds.dim,
        forall|i: int| 0 <= i < ds.dim ==> (#[trigger] res.2@[i])@.len() == ds.size + 1,
        forall|i: int| 0 <= i < ds.dim ==> orb_ok(ds, i, (#[trigger] res.2@[i])@, res.0@.len() as int),
        forall|k: int| 0 <= k < res.0@.len() ==> #[trigger] res.0@[k] >= 1,
{ unimplemented!() }

// ---------------- PartialDSym ----------------
struct PartialDSym {
    dset: SimpleDSet,
    orbit_index: Vec<Vec<usize>>,
    orbit_rs: Vec<usize>,
    orbit_vs: Vec<usize>,
}

impl PartialDSym {
    spec fn wf(&self) -> bool {
        &&& self.dset.wf()
        &&& self.orbit_index@.len() == self.dset.dim
        &&& forall|i: int| 0 <= i < self.dset.dim ==> (#[trigger] self.orbit_index@[i])@.len() == self.dset.size + 1
        &&& forall|i: int| 0 <= i < self.dset.dim ==> orb_ok(&self.dset, i, (#[trigger] self.orbit_index@[i])@, self.orbit_rs@.len() as int)
        &&& self.orbit_vs@.len() == self.orbit_rs@.len()
        &&& forall|k: int| 0 <= k < self.orbit_rs@.len() ==> #[trigger] self.orbit_rs@[k] >= 1
    }
    spec fn oidx(&self, i: int, d: int) -> int { self.orbit_index@[i]@[d] as int }
    spec fn degrees_ok(&self) -> bool {
        forall|k: int| 0 <= k < self.orbit_rs@.len() ==> #[trigger] self.orbit_rs@[k] * self.orbit_vs@[k] <= usize::MAX
    }

    // real body of `impl From<SimpleDSet> for PartialDSym` (dsyms.rs:252)
    fn from_simple(dset: SimpleDSet) -> (r: Self)
        requires dset.wf()
        ensures r.wf(), r.dset == dset, forall|k: int| 0 <= k < r.orbit_vs@.len() ==> #[trigger] r.orbit_vs@[k] == 0,
    {
        let (orbit_rs, _, orbit_index) = collect_orbits(&dset);
        let orbit_vs = vec![0; orbit_rs.len()];

        PartialDSym { dset, orbit_index, orbit_rs, orbit_vs }
    }

    fn size(&self) -> (r: usize) requires self.wf() ensures r == self.dset.size { self.dset.size() }
    fn dim(&self) -> (r: usize) requires self.wf() ensures r == self.dset.dim { self.dset.dim() }

    // real body (dsyms.rs:186)
    fn set_v(&mut self, i: usize, d: usize, v: usize)
        requires old(self).wf(), i < old(self).dset.dim, 1 <= d <= old(self).dset.size
        ensures final(self).wf(), final(self).dset == old(self).dset, final(self).orbit_index == old(self).orbit_index,
            final(self).orbit_rs == old(self).orbit_rs,
            final(self).orbit_vs@ == old(self).orbit_vs@.update(old(self).oidx(i as int, d as int), v),
    {
        proof { assert(orb_ok(&self.dset, i as int, self.orbit_index@[i as int]@, self.orbit_rs@.len() as int)); }
        assert!(1 <= d);
        self.orbit_vs[self.orbit_index[i][d]] = v;
    }

    // adjacent branch of the real `r` and `v` (dsyms.rs:213, 235), i.e. the part from_str uses
    fn r_adj(&self, i: usize, d: usize) -> (r: usize)
        requires self.wf(), i < self.dset.dim, 1 <= d <= self.dset.size
        ensures r == self.orbit_rs@[self.oidx(i as int, d as int)], r >= 1
    {
        proof { assert(orb_ok(&self.dset, i as int, self.orbit_index@[i as int]@, self.orbit_rs@.len() as int)); }
        self.orbit_rs[self.orbit_index[i][d]]
    }
    fn v_adj(&self, i: usize, d: usize) -> (r: usize)
        requires self.wf(), i < self.dset.dim, 1 <= d <= self.dset.size
        ensures r == self.orbit_vs@[self.oidx(i as int, d as int)]
    {
        proof { assert(orb_ok(&self.dset, i as int, self.orbit_index@[i as int]@, self.orbit_rs@.len() as int)); }
        self.orbit_vs[self.orbit_index[i][d]]
    }
}


// ---------------- spec of r, v, m shared by both representations ----------------
impl SimpleDSet {
    // real body (dsets.rs:537), `op_unchecked` by contract
    #[verifier::external_body]
    fn op_unchecked(&self, i: usize, d: usize) -> (r: usize)
        requires self.wf(), i <= self.dim, 1 <= d <= self.size,
        ensures r == self.sop(i as int, d as int)
    { unimplemented!() }

    fn op(&self, i: usize, d: usize) -> (r: Option<usize>)
        requires self.wf()
        ensures r == self.spec_op(i as int, d as int)
    {
        if i > self.dim || d < 1 || d > self.size {
            None
        } else {
            Some(self.op_unchecked(i, d))
        }
    }
    spec fn spec_op(&self, i: int, d: int) -> Option<usize> {
        if i > self.dim || d < 1 || d > self.size { None } else { Some(self.sop(i, d) as usize) }
    }
}

spec fn spec_r(dset: &SimpleDSet, oi: Seq<Vec<usize>>, rs: Seq<usize>, i: int, j: int, d: int) -> Option<usize> {
    if i > dset.dim || j > dset.dim || d < 1 || d > dset.size { None }
    else if j == i { Some(1usize) }
    else if j == i + 1 { Some(rs[oi[i]@[d] as int]) }
    else if i == j + 1 { Some(rs[oi[j]@[d] as int]) }
    else if dset.sop(i, d) == dset.sop(j, d) { Some(1usize) }
    else { Some(2usize) }
}

spec fn spec_v(dset: &SimpleDSet, oi: Seq<Vec<usize>>, vs: Seq<usize>, i: int, j: int, d: int) -> Option<usize> {
    if i > dset.dim || j > dset.dim || d < 1 || d > dset.size { None }
    else if j == i { Some(1usize) }
    else if j == i + 1 { Some(vs[oi[i]@[d] as int]) }
    else if i == j + 1 { Some(vs[oi[j]@[d] as int]) }
    else if dset.sop(i, d) == dset.sop(j, d) { Some(2usize) }
    else { Some(1usize) }
}

proof fn lemma_r_v_symmetric(dset: &SimpleDSet, oi: Seq<Vec<usize>>, rs: Seq<usize>, vs: Seq<usize>, i: int, j: int, d: int)
    requires i >= 0, j >= 0
    ensures spec_r(dset, oi, rs, i, j, d) == spec_r(dset, oi, rs, j, i, d),
            spec_v(dset, oi, vs, i, j, d) == spec_v(dset, oi, vs, j, i, d),
{}

impl PartialDSym {
    fn op(&self, i: usize, d: usize) -> (r: Option<usize>)
        requires self.wf() ensures r == self.dset.spec_op(i as int, d as int)
    { self.dset.op(i, d) }

    // real body (dsyms.rs:213)
    fn r(&self, i: usize, j: usize, d: usize) -> (r: Option<usize>)
        requires self.wf()
        ensures r == spec_r(&self.dset, self.orbit_index@, self.orbit_rs@, i as int, j as int, d as int)
    {
        if i > self.dim() || j > self.dim() || d < 1 || d > self.size() {
            None
        } else if j == i {
            Some(1)
        } else if j == i + 1 {
            proof { assert(orb_ok(&self.dset, i as int, self.orbit_index@[i as int]@, self.orbit_rs@.len() as int)); }
            Some(self.orbit_rs[self.orbit_index[i][d]])
        } else if i == j + 1 {
            proof { assert(orb_ok(&self.dset, j as int, self.orbit_index@[j as int]@, self.orbit_rs@.len() as int)); }
            Some(self.orbit_rs[self.orbit_index[j][d]])
        } else if self.op(i, d) == self.op(j, d) {
            Some(1)
        } else {
            Some(2)
        }
    }

    // real body (dsyms.rs:235)
    fn v(&self, i: usize, j: usize, d: usize) -> (r: Option<usize>)
        requires self.wf()
        ensures r == spec_v(&self.dset, self.orbit_index@, self.orbit_vs@, i as int, j as int, d as int)
    {
        if i > self.dim() || j > self.dim() || d < 1 || d > self.size() {
            None
        } else if j == i {
            Some(1)
        } else if j == i + 1 {
            proof { assert(orb_ok(&self.dset, i as int, self.orbit_index@[i as int]@, self.orbit_rs@.len() as int)); }
            Some(self.orbit_vs[self.orbit_index[i][d]])
        } else if i == j + 1 {
            proof { assert(orb_ok(&self.dset, j as int, self.orbit_index@[j as int]@, self.orbit_rs@.len() as int)); }
            Some(self.orbit_vs[self.orbit_index[j][d]])
        } else if self.op(i, d) == self.op(j, d) {
            Some(2)
        } else {
            Some(1)
        }
    }

    // real body (dsyms.rs:229)
    fn m(&self, i: usize, j: usize, d: usize) -> (r: Option<usize>)
        requires self.wf(), self.degrees_ok()
        ensures r == (match (spec_r(&self.dset, self.orbit_index@, self.orbit_rs@, i as int, j as int, d as int),
                             spec_v(&self.dset, self.orbit_index@, self.orbit_vs@, i as int, j as int, d as int)) {
                        (Some(a), Some(b)) => Some((a * b) as usize),
                        _ => None })
    {
        proof {
            if i < self.dset.dim && 1 <= d <= self.dset.size { assert(orb_ok(&self.dset, i as int, self.orbit_index@[i as int]@, self.orbit_rs@.len() as int)); }
            if j < self.dset.dim && 1 <= d <= self.dset.size { assert(orb_ok(&self.dset, j as int, self.orbit_index@[j as int]@, self.orbit_rs@.len() as int)); }
        }
        Some(self.r(i, j, d)? * self.v(i, j, d)?)
    }
}

// ---------------- SimpleDSym: same fields, real bodies of dsyms.rs:412 and 434 ----------------
struct SimpleDSym {
    dset: SimpleDSet,
    orbit_index: Vec<Vec<usize>>,
    orbit_rs: Vec<usize>,
    orbit_vs: Vec<usize>,
    counter: usize,
}

impl SimpleDSym {
    spec fn wf(&self) -> bool {
        &&& self.dset.wf()
        &&& self.orbit_index@.len() == self.dset.dim
        &&& forall|i: int| 0 <= i < self.dset.dim ==> (#[trigger] self.orbit_index@[i])@.len() == self.dset.size + 1
        &&& forall|i: int| 0 <= i < self.dset.dim ==> orb_ok(&self.dset, i, (#[trigger] self.orbit_index@[i])@, self.orbit_rs@.len() as int)
        &&& self.orbit_vs@.len() == self.orbit_rs@.len()
    }
    fn size(&self) -> (r: usize) requires self.wf() ensures r == self.dset.size { self.dset.size() }
    fn dim(&self) -> (r: usize) requires self.wf() ensures r == self.dset.dim { self.dset.dim() }
    fn op(&self, i: usize, d: usize) -> (r: Option<usize>)
        requires self.wf() ensures r == self.dset.spec_op(i as int, d as int)
    { self.dset.op(i, d) }

    fn r(&self, i: usize, j: usize, d: usize) -> (r: Option<usize>)
        requires self.wf()
        ensures r == spec_r(&self.dset, self.orbit_index@, self.orbit_rs@, i as int, j as int, d as int)
    {
        if i > self.dim() || j > self.dim() || d < 1 || d > self.size() {
            None
        } else if j == i {
            Some(1)
        } else if j == i + 1 {
            proof { assert(orb_ok(&self.dset, i as int, self.orbit_index@[i as int]@, self.orbit_rs@.len() as int)); }
            Some(self.orbit_rs[self.orbit_index[i][d]])
        } else if j == i - 1 {
            proof { assert(orb_ok(&self.dset, j as int, self.orbit_index@[j as int]@, self.orbit_rs@.len() as int)); }
            Some(self.orbit_rs[self.orbit_index[j][d]])
        } else if self.op(i, d) == self.op(j, d) {
            Some(1)
        } else {
            Some(2)
        }
    }
}

}
fn main() {}
