use vstd::prelude::*;
verus! {

trait Array2d<T> {
    spec fn srows(&self) -> int;
    spec fn scols(&self) -> int;
    fn nr_rows(&self) -> (r: usize) ensures r == self.srows();
    fn nr_columns(&self) -> (r: usize) ensures r == self.scols();
}

trait Entry: Sized {
    fn pivot_row<M: Array2d<Self>>(col: usize, row0: usize, a: &M) -> (r: Option<usize>)
        requires row0 < a.srows(), col < a.scols()
        ensures r.is_some() ==> row0 <= r.unwrap() < a.srows();
    fn clear_col<A: Array2d<Self>, B: Array2d<Self>>(
        col: usize, row1: usize, row2: usize, a: &mut A, x: Option<&mut B>
    )
        requires row1 < old(a).srows(), row2 < old(a).srows(), col < old(a).scols(),
            x.is_some() ==> row1 < old(x.unwrap()).srows() && row2 < old(x.unwrap()).srows(),
        ensures final(a).srows() == old(a).srows(), final(a).scols() == old(a).scols(),
            x.is_some() ==> final(x.unwrap()).srows() == old(x.unwrap()).srows() && final(x.unwrap()).scols() == old(x.unwrap()).scols();
}

struct VecMatrix<T> {
    data: Vec<T>,
    nr_rows: usize,
    nr_cols: usize,
}

impl<T> Array2d<T> for VecMatrix<T> {
    spec fn srows(&self) -> int { self.nr_rows as int }
    spec fn scols(&self) -> int { self.nr_cols as int }
    fn nr_rows(&self) -> usize { self.nr_rows }
    fn nr_columns(&self) -> usize { self.nr_cols }
}

impl<T> VecMatrix<T> {
    #[verifier::external_body]
    fn clone(&self) -> (r: Self) ensures r.nr_rows == self.nr_rows, r.nr_cols == self.nr_cols { unimplemented!() }
    #[verifier::external_body]
    fn identity(dim: usize) -> (r: Self) ensures r.nr_rows == dim, r.nr_cols == dim { unimplemented!() }
    #[verifier::external_body]
    fn swap_rows(&mut self, i: usize, j: usize)
        requires i < old(self).nr_rows, j < old(self).nr_rows, i != j
        ensures final(self).nr_rows == old(self).nr_rows, final(self).nr_cols == old(self).nr_cols
    { unimplemented!() }
}

struct RowEchelonVecMatrix<T: Entry> {
    multiplier: VecMatrix<T>,
    result: VecMatrix<T>,
    columns: Vec<usize>,
    rank: usize,
    nr_swaps: usize
}

impl<T: Entry> RowEchelonVecMatrix<T> {
    fn new(m: &VecMatrix<T>) -> (re: Self)
        ensures re.rank <= m.nr_rows, re.rank <= m.nr_cols
    {
        let mut u = m.clone();
        let mut s = VecMatrix::identity(m.nr_rows());
        let mut row = 0;
        let mut nr_swaps = 0;
        let mut cols = vec![m.nr_rows(); m.nr_rows()];

        for col in 0..m.nr_columns()
            invariant
                u.nr_rows == m.nr_rows, u.nr_cols == m.nr_cols,
                s.nr_rows == m.nr_rows, s.nr_cols == m.nr_rows,
                cols@.len() == m.nr_rows,
                row <= col, row <= m.nr_rows, nr_swaps <= row,
        {
            if let Some(pr) = Entry::pivot_row(col, row, &u) {
                if pr != row {
                    u.swap_rows(pr, row);
                    s.swap_rows(pr, row);
                    nr_swaps += 1;
                }

                for r in (row + 1)..m.nr_rows()
                    invariant
                        u.nr_rows == m.nr_rows, u.nr_cols == m.nr_cols,
                        s.nr_rows == m.nr_rows, s.nr_cols == m.nr_rows,
                        row < m.nr_rows, col < m.nr_cols,
                {
                    Entry::clear_col(col, r, row, &mut u, Some(&mut s));
                }

                cols[row] = col;
                row += 1;
            }
        }

        RowEchelonVecMatrix {
            multiplier: s,
            result: u,
            columns: cols,
            rank: row,
            nr_swaps
        }
    }
}

}
fn main() {}
