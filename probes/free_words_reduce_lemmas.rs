use vstd::prelude::*;
verus! {

pub open spec fn neg_eq(x: isize, y: isize) -> bool { x as int == -(y as int) }

pub open spec fn step(buf: Seq<isize>, x: isize) -> Seq<isize> {
    if buf.len() > 0 && neg_eq(x, buf.last()) { buf.drop_last() }
    else if x != 0 { buf.push(x) }
    else { buf }
}

pub open spec fn reduce_from(buf: Seq<isize>, s: Seq<isize>) -> Seq<isize>
    decreases s.len()
{
    if s.len() == 0 { buf } else { reduce_from(step(buf, s[0]), s.drop_first()) }
}

pub open spec fn reduce(s: Seq<isize>) -> Seq<isize> { reduce_from(Seq::empty(), s) }

pub open spec fn reduced(s: Seq<isize>) -> bool {
    &&& forall|k: int| 0 <= k < s.len() ==> #[trigger] s[k] != 0
    &&& forall|k: int| 0 <= k < s.len() - 1 ==> !neg_eq(#[trigger] s[k + 1], s[k])
}

// L1: stepping keeps reducedness
proof fn lemma_step_reduced(buf: Seq<isize>, x: isize)
    requires reduced(buf)
    ensures reduced(step(buf, x))
{
    let r = step(buf, x);
    if buf.len() > 0 && neg_eq(x, buf.last()) {
        assert forall|k: int| 0 <= k < r.len() implies #[trigger] r[k] != 0 by { assert(r[k] == buf[k]); }
        assert forall|k: int| 0 <= k < r.len() - 1 implies !neg_eq(#[trigger] r[k + 1], r[k]) by { assert(r[k+1] == buf[k+1]); assert(r[k] == buf[k]); }
    } else if x != 0 {
        assert forall|k: int| 0 <= k < r.len() implies #[trigger] r[k] != 0 by { if k < buf.len() { assert(r[k] == buf[k]); } }
        assert forall|k: int| 0 <= k < r.len() - 1 implies !neg_eq(#[trigger] r[k + 1], r[k]) by {
            if k + 1 < buf.len() { assert(r[k+1] == buf[k+1]); assert(r[k] == buf[k]); }
            else { assert(r[k+1] == x); assert(r[k] == buf.last()); }
        }
    }
}

proof fn lemma_reduce_from_reduced(buf: Seq<isize>, s: Seq<isize>)
    requires reduced(buf)
    ensures reduced(reduce_from(buf, s))
    decreases s.len()
{
    if s.len() > 0 {
        lemma_step_reduced(buf, s[0]);
        lemma_reduce_from_reduced(step(buf, s[0]), s.drop_first());
    }
}

// L2: reduce_from(buf, s) == buf + s when buf + s is reduced
proof fn lemma_reduce_from_id(buf: Seq<isize>, s: Seq<isize>)
    requires reduced(buf + s)
    ensures reduce_from(buf, s) == buf + s
    decreases s.len()
{
    if s.len() == 0 {
        assert(buf + s =~= buf);
    } else {
        let x = s[0];
        let t = buf + s;
        assert(t[buf.len() as int] == x);
        assert(x != 0);
        if buf.len() > 0 {
            assert(t[buf.len() - 1] == buf.last());
            assert(!neg_eq(t[(buf.len() - 1) + 1], t[buf.len() - 1]));
        }
        assert(step(buf, x) == buf.push(x));
        assert(buf.push(x) + s.drop_first() =~= buf + s);
        lemma_reduce_from_id(buf.push(x), s.drop_first());
    }
}

// L3: concatenation: reduce_from(buf, a + b) == reduce_from(reduce_from(buf, a), b)
proof fn lemma_reduce_from_concat(buf: Seq<isize>, a: Seq<isize>, b: Seq<isize>)
    ensures reduce_from(buf, a + b) == reduce_from(reduce_from(buf, a), b)
    decreases a.len()
{
    if a.len() == 0 {
        assert(a + b =~= b);
    } else {
        assert((a + b)[0] == a[0]);
        assert((a + b).drop_first() =~= a.drop_first() + b);
        lemma_reduce_from_concat(step(buf, a[0]), a.drop_first(), b);
    }
}

// L4 (key): reducing from a reduced prefix equals reducing the concatenation from empty
proof fn lemma_reduce_prefix(buf: Seq<isize>, s: Seq<isize>)
    requires reduced(buf)
    ensures reduce_from(buf, s) == reduce(buf + s)
{
    lemma_reduce_from_concat(Seq::empty(), buf, s);
    assert(Seq::<isize>::empty() + buf =~= buf);
    lemma_reduce_from_id(Seq::empty(), buf);
}

// product spec and associativity
pub open spec fn mul(a: Seq<isize>, b: Seq<isize>) -> Seq<isize> { reduce(a + b) }

proof fn lemma_reduce_idem_concat(a: Seq<isize>, b: Seq<isize>)
    ensures reduce(reduce(a) + b) == reduce(a + b)
{
    lemma_reduce_from_reduced(Seq::empty(), a);
    assert(reduced(Seq::<isize>::empty()));
    lemma_reduce_prefix(reduce(a), b);
    lemma_reduce_from_concat(Seq::empty(), a, b);
}


proof fn lemma_reduce_from_push(buf: Seq<isize>, c: Seq<isize>, x: isize)
    ensures reduce_from(buf, c.push(x)) == step(reduce_from(buf, c), x)
{
    assert(c.push(x) =~= c + seq![x]);
    lemma_reduce_from_concat(buf, c, seq![x]);
    let u = reduce_from(buf, c);
    assert(seq![x].drop_first() =~= Seq::<isize>::empty());
    assert(reduce_from(u, seq![x]) == reduce_from(step(u, seq![x][0]), seq![x].drop_first()));
}

// stepping by y then by -y returns to a reduced u
proof fn lemma_step_cancel(u: Seq<isize>, y: isize)
    requires reduced(u), y != 0, y > isize::MIN
    ensures step(step(u, y), (-y) as isize) == u
{
    let ny = (-y) as isize;
    if u.len() > 0 && neg_eq(y, u.last()) {
        let v = u.drop_last();
        assert(step(u, y) == v);
        assert(ny == u.last());
        if v.len() > 0 && neg_eq(ny, v.last()) {
            assert(u[u.len() - 2] == v.last());
            assert(!neg_eq(u[(u.len() - 2) + 1], u[u.len() - 2]));
            assert(false);
        }
        assert(u[u.len() - 1] != 0);
        assert(step(v, ny) == v.push(ny));
        assert(v.push(ny) =~= u);
    } else {
        assert(step(u, y) == u.push(y));
        assert(u.push(y).last() == y);
        assert(neg_eq(ny, y));
        assert(u.push(y).drop_last() =~= u);
    }
}

// key commutation: R(buf, step(c, x)) == step(R(buf, c), x) for reduced buf, c
proof fn lemma_step_commutes(buf: Seq<isize>, c: Seq<isize>, x: isize)
    requires reduced(buf), reduced(c), forall|k: int| 0 <= k < c.len() ==> #[trigger] c[k] > isize::MIN,
    ensures reduce_from(buf, step(c, x)) == step(reduce_from(buf, c), x)
{
    if c.len() > 0 && neg_eq(x, c.last()) {
        let y = c.last();
        let c0 = c.drop_last();
        assert(c0.push(y) =~= c);
        lemma_reduce_from_push(buf, c0, y);
        let u = reduce_from(buf, c0);
        lemma_reduce_from_reduced(buf, c0);
        assert(c[c.len() - 1] != 0);
        assert(x == (-y) as isize);
        lemma_step_cancel(u, y);
    } else if x != 0 {
        lemma_reduce_from_push(buf, c, x);
    } else {
        lemma_reduce_from_reduced(buf, c);
        let u = reduce_from(buf, c);
        if u.len() > 0 { assert(u[u.len() - 1] != 0); }
    }
}

proof fn lemma_letters_step(c: Seq<isize>, x: isize)
    requires forall|k: int| 0 <= k < c.len() ==> #[trigger] c[k] > isize::MIN, x > isize::MIN
    ensures forall|k: int| 0 <= k < step(c, x).len() ==> #[trigger] step(c, x)[k] > isize::MIN
{
    let r = step(c, x);
    assert forall|k: int| 0 <= k < r.len() implies #[trigger] r[k] > isize::MIN by {
        if k < c.len() { assert(r[k] == c[k]); }
    }
}

// right idempotence, generalised over the prefix
proof fn lemma_reduce_right(buf: Seq<isize>, b: Seq<isize>)
    requires reduced(buf), forall|k: int| 0 <= k < b.len() ==> #[trigger] b[k] > isize::MIN
    ensures reduce_from(buf, b) == reduce_from(buf, reduce(b)),
        forall|k: int| 0 <= k < reduce(b).len() ==> #[trigger] reduce(b)[k] > isize::MIN
    decreases b.len()
{
    if b.len() == 0 {
    } else {
        let b0 = b.drop_last();
        let x = b.last();
        assert(b0.push(x) =~= b);
        lemma_reduce_right(buf, b0);
        lemma_reduce_from_push(buf, b0, x);
        lemma_reduce_from_push(Seq::empty(), b0, x);
        lemma_reduce_from_reduced(Seq::empty(), b0);
        lemma_step_commutes(buf, reduce(b0), x);
        lemma_letters_step(reduce(b0), x);
    }
}

proof fn lemma_assoc(a: Seq<isize>, b: Seq<isize>, c: Seq<isize>)
    requires forall|k: int| 0 <= k < b.len() ==> #[trigger] b[k] > isize::MIN,
             forall|k: int| 0 <= k < c.len() ==> #[trigger] c[k] > isize::MIN,
    ensures mul(mul(a, b), c) == mul(a, mul(b, c))
{
    lemma_reduce_idem_concat(a + b, c);
    // rhs: reduce(a + reduce(b + c))
    lemma_reduce_from_concat(Seq::empty(), a, reduce(b + c));
    lemma_reduce_from_concat(Seq::empty(), a, b + c);
    lemma_reduce_from_reduced(Seq::empty(), a);
    assert forall|k: int| 0 <= k < (b + c).len() implies #[trigger] (b + c)[k] > isize::MIN by {
        if k < b.len() { assert((b + c)[k] == b[k]); } else { assert((b + c)[k] == c[k - b.len()]); }
    }
    lemma_reduce_right(reduce(a), b + c);
    assert(a + (b + c) =~= (a + b) + c);
}

}
fn main() {}
