use vstd::prelude::*;
use vstd::std_specs::iter::*;
verus! {
spec fn p(i: int) -> bool { i % 7 != 3 }
fn f(n: usize) {
    let mut r = 0..n;
    let ghost s = IteratorSpec::remaining(&r);
    let b = r.all(|i: usize| -> (r: bool) ensures r == p(i as int) { i % 7 != 3 });
    proof {
        if b {
            assert forall|i: int| 0 <= i < n implies #[trigger] p(i) by {
                assert(s[i] == i);
            }
        }
    }
}
fn g(n: usize) {
    let b = (0..n).all(|i: usize| -> (r: bool) ensures r == p(i as int) { i % 7 != 3 });
    proof {
        if b {
            assert forall|i: int| 0 <= i < n implies #[trigger] p(i) by {
                let r = 0..n;
                assert(IteratorSpec::remaining(&r)[i] == i);
            }
        }
    }
}
}
fn main() {}
