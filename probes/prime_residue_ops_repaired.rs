use vstd::prelude::*;
use vstd::arithmetic::div_mod::*;
use std::ops::{Add, Mul, Neg, Sub, Div};
verus! {

#[derive(Copy, Clone, Debug, PartialEq, Eq)]
pub struct PrimeResidueClass<const P: i64> {
    value: i64
}

pub open spec fn valid_p(p: int) -> bool { 2 <= p <= 3037000499 }

#[verifier::external_body]
proof fn domain_valid_p<const P: i64>() ensures valid_p(P as int) {}

impl<const P: i64> PrimeResidueClass<P> {
    #[verifier::type_invariant]
    spec fn inv(self) -> bool { 0 <= self.value < P }

    pub closed spec fn val(self) -> int { self.value as int }
}

// Rust's truncated remainder (vstd::arithmetic::div_mod::rust_rem) vs Euclidean remainder
proof fn lemma_trunc_mod(n: int, p: int)
    requires p > 0
    ensures ({
        let t = rust_rem(n, p);
        (if t < 0 { t + p } else { t }) == n % p
    })
{
    if n == 0 {
        lemma_small_mod(0, p as nat);
    } else if n < 0 {
        let m = -n;
        lemma_fundamental_div_mod(m, p);
        lemma_mod_bound(m, p);
        if m % p == 0 {
            let q = -(m / p);
            assert(n == q * p + 0) by(nonlinear_arith) requires m == p * (m / p) + m % p, m % p == 0, n == -m, q == -(m / p);
            lemma_fundamental_div_mod_converse(n, p, q, 0);
        } else {
            let q = -(m / p) - 1;
            let r = p - m % p;
            assert(n == q * p + r) by(nonlinear_arith) requires m == p * (m / p) + m % p, n == -m, q == -(m / p) - 1, r == p - m % p;
            lemma_fundamental_div_mod_converse(n, p, q, r);
        }
    }
}

impl<const P: i64> vstd::std_specs::convert::FromSpecImpl<i64> for PrimeResidueClass<P> {
    open spec fn obeys_from_spec() -> bool { false }
    open spec fn from_spec(n: i64) -> Self { arbitrary() }
}

impl<const P: i64> From<i64> for PrimeResidueClass<P> {
    fn from(n: i64) -> (r: Self)
        ensures r.val() == (n as int) % (P as int)
    {
        proof { domain_valid_p::<P>(); lemma_trunc_mod(n as int, P as int); }
        let r = n % P;
        PrimeResidueClass {
            value: if r < 0 { r + P } else { r }
        }
    }
}

impl<const P: i64> vstd::std_specs::ops::AddSpecImpl<PrimeResidueClass<P>> for PrimeResidueClass<P> {
    open spec fn obeys_add_spec() -> bool { false }
    open spec fn add_req(self, rhs: PrimeResidueClass<P>) -> bool { true }
    open spec fn add_spec(self, rhs: PrimeResidueClass<P>) -> Self { arbitrary() }
}

impl<const P: i64> Add<PrimeResidueClass<P>> for PrimeResidueClass<P> {
    type Output = Self;

    fn add(self, rhs: PrimeResidueClass<P>) -> (r: Self::Output)
        ensures r.val() == (self.val() + rhs.val()) % (P as int)
    {
        proof { domain_valid_p::<P>(); use_type_invariant(self); use_type_invariant(rhs); }
        (self.value + rhs.value).into()
    }
}

impl<const P: i64> vstd::std_specs::ops::MulSpecImpl<PrimeResidueClass<P>> for PrimeResidueClass<P> {
    open spec fn obeys_mul_spec() -> bool { false }
    open spec fn mul_req(self, rhs: PrimeResidueClass<P>) -> bool { true }
    open spec fn mul_spec(self, rhs: PrimeResidueClass<P>) -> Self { arbitrary() }
}

impl<const P: i64> Mul<PrimeResidueClass<P>> for PrimeResidueClass<P> {
    type Output = PrimeResidueClass<P>;

    fn mul(self, rhs: PrimeResidueClass<P>) -> (r: Self::Output)
        ensures r.val() == (self.val() * rhs.val()) % (P as int)
    {
        proof {
            domain_valid_p::<P>(); use_type_invariant(self); use_type_invariant(rhs);
            assert(0 <= self.value * rhs.value <= 3037000498 * 3037000498) by(nonlinear_arith)
                requires 0 <= self.value <= 3037000498, 0 <= rhs.value <= 3037000498;
        }
        (self.value * rhs.value).into()
    }
}

impl<const P: i64> vstd::std_specs::ops::NegSpecImpl for PrimeResidueClass<P> {
    open spec fn obeys_neg_spec() -> bool { false }
    open spec fn neg_req(self) -> bool { true }
    open spec fn neg_spec(self) -> Self { arbitrary() }
}

impl<const P: i64> Neg for PrimeResidueClass<P> {
    type Output = PrimeResidueClass<P>;

    fn neg(self) -> (r: Self::Output)
        ensures r.val() == (-self.val()) % (P as int)
    {
        proof { domain_valid_p::<P>(); use_type_invariant(self); }
        (-self.value).into()
    }
}

}
fn main() {}
