use vstd::prelude::*;
use vstd::std_specs::core::*;
use std::ops::{Index, IndexMut};
verus! {
pub assume_specification[i64::abs](x: i64) -> (r: i64)
    requires x > i64::MIN
    ensures r == if x < 0 { -x } else { x as int };

pub trait Array2d<T>:
    Index<(usize, usize), Output=T> +
    IndexMut<(usize, usize), Output=T>
{
    spec fn srows(&self) -> int;
    spec fn scols(&self) -> int;
    fn nr_rows(&self) -> (r: usize) ensures r == self.srows();
    fn nr_columns(&self) -> (r: usize) ensures r == self.scols();
    // law tying the (vstd) index precondition to the shape; every impl must prove it
    proof fn index_law(&self, i: usize, j: usize)
        ensures IndexSpec::index_req(self, &(i, j)) <==> (i < self.srows() && j < self.scols());
}

pub trait Entry: Sized {
    fn pivot_row<M: Array2d<Self>>(col: usize, row0: usize, a: &M) -> (r: Option<usize>)
        requires row0 < a.srows(), col < a.scols()
        ensures r.is_some() ==> row0 <= r.unwrap() < a.srows();
}

impl Entry for i64 {
    // real body (traits.rs:181)
    fn pivot_row<M: Array2d<Self>>(col: usize, row0: usize, a: &M)
        -> (r: Option<usize>)
    {
        let mut best_row = row0;

        for row in (row0 + 1)..a.nr_rows()
            invariant row0 <= best_row < a.srows(), col < a.scols(), row0 < a.srows(),
        {
            proof { a.index_law(row, col); a.index_law(best_row, col); }
            let x = a[(row, col)];
            let y = a[(best_row, col)];
            if x != 0 && (y == 0 || x.abs() < y.abs()) {
                best_row = row;
            }
        }

        proof { a.index_law(best_row, col); }
        if a[(best_row, col)] != 0 { Some(best_row) } else { None }
    }
}

pub struct VecMatrix<T> {
    pub data: Vec<T>,
    pub nr_rows: usize,
    pub nr_cols: usize,
}

impl<T> VecMatrix<T> {
    pub open spec fn wf(&self) -> bool { self.data@.len() == self.nr_rows * self.nr_cols }
}

impl<T> IndexSpecImpl<(usize, usize)> for VecMatrix<T> {
    open spec fn index_req(&self, index: &(usize, usize)) -> bool { index.0 < self.nr_rows && index.1 < self.nr_cols && self.wf() }
}

impl<T> Index<(usize, usize)> for VecMatrix<T>
{
    type Output = T;

    // real body (vec_matrix.rs:41)
    fn index(&self, index: (usize, usize)) -> &Self::Output {
        let (i, j) = index;
        assert!(i < self.nr_rows);
        assert!(j < self.nr_cols);
        proof {
            assert(i * self.nr_cols + j < self.nr_rows * self.nr_cols) by(nonlinear_arith)
                requires i < self.nr_rows, j < self.nr_cols;
        }
        &self.data[i * self.nr_cols + j]
    }
}

}
fn main() {}
