use vstd::prelude::*;
use std::collections::{BTreeMap, VecDeque};
verus! {
pub assume_specification<T, const N: usize>[<VecDeque<T> as From<[T; N]>>::from](a: [T; N]) -> (r: VecDeque<T>)
    ensures r@ == a@;
pub assume_specification<K: Ord, V, const N: usize>[<BTreeMap<K, V> as From<[(K, V); N]>>::from](a: [(K, V); N]) -> (r: BTreeMap<K, V>)
    ensures N == 1 ==> r@ == Map::<K, V>::empty().insert(a@[0].0, a@[0].1);

// ---- C10 spec layer (from probes/free_words_reduce_lemmas.rs), abbreviated ----
spec fn neg_eq(x: isize, y: isize) -> bool { x as int == -(y as int) }
spec fn step(buf: Seq<isize>, x: isize) -> Seq<isize> {
    if buf.len() > 0 && neg_eq(x, buf.last()) { buf.drop_last() }
    else if x != 0 { buf.push(x) }
    else { buf }
}
spec fn reduced(s: Seq<isize>) -> bool {
    &&& forall|k: int| 0 <= k < s.len() ==> #[trigger] s[k] != 0
    &&& forall|k: int| 0 <= k < s.len() - 1 ==> !neg_eq(#[trigger] s[k + 1], s[k])
}

struct FreeWord { w: Vec<isize> }
impl FreeWord {
    spec fn view(&self) -> Seq<isize> { self.w@ }
    #[verifier::external_body]
    fn empty() -> (r: Self) ensures r@.len() == 0 { unimplemented!() }
    #[verifier::external_body]
    fn clone(&self) -> (r: Self) ensures r@ == self@ { unimplemented!() }
    // contract of `impl Mul<isize> for &FreeWord` (C10): reduce(w + [g]) == step(w, g) for reduced w
    #[verifier::external_body]
    fn mulg(&self, g: isize) -> (r: Self) requires reduced(self@) ensures r@ == step(self@, g), reduced(r@) { unimplemented!() }
}

// ---- abstract coset table ----
struct CosetTable { nr_gens: usize, table: Vec<Vec<isize>> }

impl CosetTable {
    uninterp spec fn act(&self, row: int, g: int) -> Option<usize>;
    spec fn slen(&self) -> int { self.table@.len() as int }
    spec fn gen_ok(&self, g: int) -> bool { g != 0 && -(self.nr_gens as int) <= g <= self.nr_gens as int }

    // valid: complete permutation action with consistent inverses
    spec fn valid(&self) -> bool {
        &&& self.slen() >= 1
        &&& forall|r: int, g: int| 0 <= r < self.slen() && self.gen_ok(g) ==>
                (#[trigger] self.act(r, g)).is_some() && self.act(r, g).unwrap() < self.slen()
                && self.act(self.act(r, g).unwrap() as int, -g) == Some(r as usize)
    }

    spec fn trace(&self, row: int, w: Seq<isize>) -> Option<usize>
        decreases w.len()
    {
        if w.len() == 0 { Some(row as usize) }
        else {
            match self.trace(row, w.drop_last()) {
                Some(x) => self.act(x as int, w.last() as int),
                None => None,
            }
        }
    }

    #[verifier::external_body]
    fn all_gens(&self) -> (r: Vec<isize>)
        ensures forall|k: int| 0 <= k < r@.len() ==> self.gen_ok(#[trigger] r@[k] as int)
    { unimplemented!() }
    fn len(&self) -> (r: usize) ensures r == self.slen() { self.table.len() }
    #[verifier::external_body]
    fn get(&self, c: usize, g: isize) -> (r: Option<usize>)
        requires self.gen_ok(g as int)
        ensures c < self.slen() ==> r == self.act(c as int, g as int), c >= self.slen() ==> r.is_none()
    { unimplemented!() }
}

proof fn lemma_trace_step(t: &CosetTable, w: Seq<isize>, g: isize, k: int)
    requires t.valid(), reduced(w), t.gen_ok(g as int), 0 <= k < t.slen(),
        t.trace(0, w) == Some(k as usize),
        forall|j: int| 0 <= j < w.len() ==> t.gen_ok(#[trigger] w[j] as int),
    ensures t.trace(0, step(w, g)) == t.act(k, g as int),
        forall|j: int| 0 <= j < step(w, g).len() ==> t.gen_ok(#[trigger] step(w, g)[j] as int),
{
    if w.len() > 0 && neg_eq(g, w.last()) {
        let w0 = w.drop_last();
        let x = t.trace(0, w0);
        assert(x.is_some());
        lemma_trace_in_range(t, w0);
        assert(t.act(x.unwrap() as int, w.last() as int) == Some(k as usize));
        assert(t.gen_ok(w[w.len() - 1] as int));
        assert(step(w, g) == w0);
        assert forall|j: int| 0 <= j < w0.len() implies t.gen_ok(#[trigger] w0[j] as int) by { assert(w0[j] == w[j]); }
    } else {
        let w2 = w.push(g);
        assert(step(w, g) == w2);
        assert(w2.drop_last() =~= w);
        assert forall|j: int| 0 <= j < w2.len() implies t.gen_ok(#[trigger] w2[j] as int) by { if j < w.len() { assert(w2[j] == w[j]); } }
    }
}

proof fn lemma_trace_in_range(t: &CosetTable, w: Seq<isize>)
    requires t.valid(), t.trace(0, w).is_some(), forall|j: int| 0 <= j < w.len() ==> t.gen_ok(#[trigger] w[j] as int),
    ensures t.trace(0, w).unwrap() < t.slen()
    decreases w.len()
{
    if w.len() > 0 {
        let w0 = w.drop_last();
        assert forall|j: int| 0 <= j < w0.len() implies t.gen_ok(#[trigger] w0[j] as int) by { assert(w0[j] == w[j]); }
        lemma_trace_in_range(t, w0);
        assert(t.gen_ok(w[w.len() - 1] as int));
    }
}

spec fn reps_ok(t: &CosetTable, m: Map<usize, FreeWord>) -> bool {
    forall|k: usize| #[trigger] m.contains_key(k) ==>
        k < t.slen() && reduced(m[k]@) && t.trace(0, m[k]@) == Some(k)
        && forall|j: int| 0 <= j < m[k]@.len() ==> t.gen_ok(#[trigger] m[k]@[j] as int)
}

#[verifier::exec_allows_no_decreases_clause]
fn coset_representative(table: &CosetTable) -> (result: BTreeMap<usize, FreeWord>)
    requires table.valid()
    ensures reps_ok(table, result@), result@.contains_key(0)
{
    let mut queue = VecDeque::from([0]);
    let mut result = BTreeMap::from([(0, FreeWord::empty())]);
    proof { assert(reps_ok(table, result@)); }
    let ghost mut qg: Seq<usize> = queue@;

    while let Some(i) = queue.pop_front()
        invariant
            qg == queue@,
            table.valid(),
            reps_ok(table, result@),
            result@.contains_key(0),
            forall|k: int| 0 <= k < queue@.len() ==> result@.contains_key(#[trigger] queue@[k]),
    {
        proof { assert(qg[0] == i); assert(result@.contains_key(qg[0])); 
                assert forall|k: int| 0 <= k < queue@.len() implies result@.contains_key(#[trigger] queue@[k]) by { assert(queue@[k] == qg[k + 1]); } }
        let w = result.get(&i).unwrap().clone();

        for g in it: table.all_gens()
            invariant
                table.valid(),
                reps_ok(table, result@),
                result@.contains_key(0), result@.contains_key(i),
                w@ == result@[i]@,
                forall|k: int| 0 <= k < queue@.len() ==> result@.contains_key(#[trigger] queue@[k]),
                forall|k: int| 0 <= k < it.seq().len() ==> table.gen_ok(#[trigger] it.seq()[k] as int),
        {
            proof { assert(table.gen_ok(it.seq()[it.index() as int] as int)); }
            if let Some(k) = table.get(i, g) {
                if !result.contains_key(&k) {
                    proof { lemma_trace_step(table, w@, g, i as int); }
                    let wk = w.mulg(g);
                    result.insert(k, wk);
                    queue.push_back(k);
                }
            }
        }
        proof { qg = queue@; }
    }

    result
}
}
fn main() {}
