use vstd::prelude::*;
use vstd::std_specs::iter::*;
use std::collections::VecDeque;
verus! {

pub trait DSet: Sized {
    spec fn ssize(&self) -> int;
    spec fn sdim(&self) -> int;
    spec fn sop(&self, i: int, d: int) -> Option<usize>;
    spec fn sm(&self, i: int, j: int, d: int) -> Option<usize>;

    spec fn wf(&self) -> bool;

    proof fn lemma_wf(&self)
        requires self.wf()
        ensures 1 <= self.ssize() < usize::MAX, 1 <= self.sdim() < usize::MAX,
            forall|i: int, d: int| (#[trigger] self.sop(i, d)).is_some() ==>
                0 <= i <= self.sdim() && 1 <= d <= self.ssize() && 1 <= self.sop(i, d).unwrap() <= self.ssize();

    fn size(&self) -> (r: usize) requires self.wf() ensures r == self.ssize();
    fn dim(&self) -> (r: usize) requires self.wf() ensures r == self.sdim();
    fn op(&self, i: usize, d: usize) -> (r: Option<usize>) requires self.wf() ensures r == self.sop(i as int, d as int);
    fn m(&self, i: usize, j: usize, d: usize) -> (r: Option<usize>) requires self.wf() ensures r == self.sm(i as int, j as int, d as int);
}

pub open spec fn deg_ok<S: DSet, T: DSet>(this: &S, other: &T, d: int, e: int) -> bool {
    forall|i: int| 0 <= i < this.sdim() ==> #[trigger] this.sm(i, i + 1, d) == other.sm(i, i + 1, e)
}

pub open spec fn op_ok<S: DSet, T: DSet>(this: &S, other: &T, m: Seq<usize>, d: int, i: int) -> bool {
    this.sop(i, d).is_some() && other.sop(i, m[d] as int).is_some()
        ==> m[this.sop(i, d).unwrap() as int] == other.sop(i, m[d] as int).unwrap()
}

pub open spec fn ops_ok<S: DSet, T: DSet>(this: &S, other: &T, m: Seq<usize>, d: int, upto: int) -> bool {
    forall|i: int| 0 <= i < upto ==> #[trigger] op_ok(this, other, m, d, i)
}

pub open spec fn valid_at<S: DSet, T: DSet>(this: &S, other: &T, m: Seq<usize>, d: int) -> bool {
    deg_ok(this, other, d, m[d] as int) && ops_ok(this, other, m, d, this.sdim() + 1)
}

pub open spec fn is_morphism<S: DSet, T: DSet>(this: &S, other: &T, phi: Seq<usize>, img0: usize) -> bool {
    &&& phi.len() == this.ssize() + 1
    &&& phi[1] == img0
    &&& forall|d: int| 1 <= d <= this.ssize() ==> #[trigger] valid_at(this, other, phi, d)
}

pub open spec fn in_queue(q: Seq<(usize, usize)>, d: int) -> bool {
    exists|k: int| 0 <= k < q.len() && (#[trigger] q[k]).0 == d
}

pub open spec fn agrees<S: DSet, T: DSet>(this: &S, other: &T, m: Seq<usize>, img0: usize) -> bool {
    forall|phi: Seq<usize>, x: int| #![trigger is_morphism(this, other, phi, img0), m[x]]
        is_morphism(this, other, phi, img0) && 1 <= x <= this.ssize() && m[x] != 0 ==> phi[x] == m[x]
}

pub open spec fn queue_ok<S: DSet>(this: &S, q: Seq<(usize, usize)>, m: Seq<usize>) -> bool {
    forall|k: int| 0 <= k < q.len() ==> 1 <= (#[trigger] q[k]).0 <= this.ssize() && m[q[k].0 as int] == q[k].1 && q[k].1 != 0
}

pub open spec fn done_ok<S: DSet, T: DSet>(this: &S, other: &T, m: Seq<usize>, done: Set<int>) -> bool {
    forall|x: int| #[trigger] done.contains(x) ==> 1 <= x <= this.ssize() && m[x] != 0 && valid_at(this, other, m, x)
}

// updating an unassigned slot keeps every finished chamber valid
proof fn lemma_done_stable<S: DSet, T: DSet>(this: &S, other: &T, m: Seq<usize>, done: Set<int>, di: int, ei: usize)
    requires this.wf(), other.wf(), done_ok(this, other, m, done), 1 <= di < m.len(), m[di] == 0, ei != 0,
        m.len() == this.ssize() + 1,
    ensures done_ok(this, other, m.update(di, ei), done)
{
    this.lemma_wf(); other.lemma_wf();
    let m2 = m.update(di, ei);
    assert forall|x: int| #[trigger] done.contains(x) implies 1 <= x <= this.ssize() && m2[x] != 0 && valid_at(this, other, m2, x) by {
        assert(valid_at(this, other, m, x));
        assert(m2[x] == m[x]);
        assert forall|i: int| 0 <= i < this.sdim() + 1 implies #[trigger] op_ok(this, other, m2, x, i) by {
            assert(op_ok(this, other, m, x, i));
            if this.sop(i, x).is_some() && other.sop(i, m[x] as int).is_some() {
                let t = this.sop(i, x).unwrap() as int;
                assert(m[t] == other.sop(i, m[x] as int).unwrap());
                assert(m[t] != 0);
                assert(t != di);
            }
        }
    }
}

#[verifier::exec_allows_no_decreases_clause]
fn morphism<S: DSet, T: DSet>(this: &S, other: &T, img0: usize)
    -> (r: Option<Vec<usize>>)
    requires this.wf(), other.wf(), img0 != 0
    ensures
        r.is_some() ==> {
            let m = r.unwrap()@;
            &&& m.len() == this.ssize() + 1
            &&& m[1] == img0
            &&& forall|d: int| 1 <= d <= this.ssize() && m[d] != 0 ==> #[trigger] valid_at(this, other, m, d)
        },
        r.is_none() ==> forall|phi: Seq<usize>| !#[trigger] is_morphism(this, other, phi, img0),
{
    proof { this.lemma_wf(); other.lemma_wf(); }
    let mut m = vec![0; this.size() + 1];
    let mut queue: VecDeque<(usize, usize)> = VecDeque::new();

    m[1] = img0;
    queue.push_back((1, img0));
    let ghost mut done: Set<int> = Set::empty();
    let ghost mut qg: Seq<(usize, usize)> = queue@;
    proof {
        assert(queue@[0].0 == 1);
        assert(in_queue(queue@, 1));
    }

    while let Some((d, e)) = queue.pop_front()
        invariant
            this.wf(), other.wf(), img0 != 0,
            m@.len() == this.ssize() + 1,
            m@[1] == img0,
            queue_ok(this, queue@, m@),
            forall|x: int| 1 <= x <= this.ssize() && #[trigger] m@[x] != 0 ==> done.contains(x) || in_queue(queue@, x),
            done_ok(this, other, m@, done),
            agrees(this, other, m@, img0),
            qg == queue@,
        ensures
            queue@.len() == 0,
    {
        proof { this.lemma_wf(); other.lemma_wf(); }
        let ghost q0 = queue@;
        proof {
            // (d, e) was q_old[0]; the rest of the queue is unchanged
            assert forall|x: int| 1 <= x <= this.ssize() && #[trigger] m@[x] != 0 implies done.contains(x) || in_queue(queue@, x) || x == d by {
                if !done.contains(x) && x != d {
                    assert(in_queue(qg, x));
                    let k = choose|k: int| 0 <= k < qg.len() && (#[trigger] qg[k]).0 == x;
                    assert(qg[0] == (d, e));
                    assert(k > 0);
                    assert(queue@[k - 1] == qg[k]);
                }
            }
        }
        if !(0..this.dim()).all(|i: usize| -> (b: bool)
                requires i < this.sdim(), this.wf(), other.wf()
                ensures b == (this.sm(i as int, i + 1, d as int) == other.sm(i as int, i + 1, e as int))
                { this.m(i, i + 1, d) == other.m(i, i + 1, e) }) {
            proof {
                assert forall|phi: Seq<usize>| !#[trigger] is_morphism(this, other, phi, img0) by {
                    if is_morphism(this, other, phi, img0) {
                        assert(m@[d as int] == e);
                        assert(phi[d as int] == m@[d as int]);
                        assert(valid_at(this, other, phi, d as int));
                    }
                }
            }
            return None;
        }
        proof {
            assert forall|i: int| 0 <= i < this.sdim() implies #[trigger] this.sm(i, i + 1, d as int) == other.sm(i, i + 1, e as int) by {
                let r = 0..(this.sdim() as usize);
                assert(IteratorSpec::remaining(&r)[i] == i);
            }
            assert(deg_ok(this, other, d as int, e as int));
        }
        for i in 0..(this.dim()) + 1
            invariant
                this.wf(), other.wf(), img0 != 0,
                1 <= d <= this.ssize(), e != 0,
                m@.len() == this.ssize() + 1,
                m@[1] == img0, m@[d as int] == e,
                queue_ok(this, queue@, m@),
                forall|x: int| 1 <= x <= this.ssize() && #[trigger] m@[x] != 0 ==> done.contains(x) || in_queue(queue@, x) || x == d,
                done_ok(this, other, m@, done),
                agrees(this, other, m@, img0),
                ops_ok(this, other, m@, d as int, i as int),
                deg_ok(this, other, d as int, e as int),
        {
            proof { this.lemma_wf(); other.lemma_wf(); }
            let ghost mi = m@;
            let ghost qi = queue@;
            if let Some(di) = this.op(i, d) {
                if let Some(ei) = other.op(i, e) {
                    if m[di] == 0 {
                        proof { lemma_done_stable(this, other, m@, done, di as int, ei); }
                        m[di] = ei;
                        queue.push_back((di, ei));
                        proof {
                            assert(di != d);
                            assert(queue@[qi.len() as int].0 == di);
                            assert(in_queue(queue@, di as int));
                            assert forall|x: int| 1 <= x <= this.ssize() && #[trigger] m@[x] != 0 implies done.contains(x) || in_queue(queue@, x) || x == d by {
                                if x != di {
                                    assert(mi[x] != 0);
                                    if in_queue(qi, x) {
                                        let k = choose|k: int| 0 <= k < qi.len() && (#[trigger] qi[k]).0 == x;
                                        assert(queue@[k].0 == x);
                                    }
                                }
                            }
                            assert forall|k: int| 0 <= k < queue@.len() implies 1 <= (#[trigger] queue@[k]).0 <= this.ssize() && m@[queue@[k].0 as int] == queue@[k].1 && queue@[k].1 != 0 by {
                                if k < qi.len() { assert(queue@[k] == qi[k]); assert(mi[qi[k].0 as int] == qi[k].1); }
                            }
                            assert forall|phi: Seq<usize>, x: int| #![trigger is_morphism(this, other, phi, img0), m@[x]]
                                is_morphism(this, other, phi, img0) && 1 <= x <= this.ssize() && m@[x] != 0 implies phi[x] == m@[x] by {
                                if x == di {
                                    assert(phi[d as int] == mi[d as int]);
                                    assert(valid_at(this, other, phi, d as int));
                                    assert(op_ok(this, other, phi, d as int, i as int));
                                } else {
                                    assert(phi[x] == mi[x]);
                                }
                            }
                            assert forall|j: int| 0 <= j < i + 1 implies #[trigger] op_ok(this, other, m@, d as int, j) by {
                                if j < i {
                                    assert(op_ok(this, other, mi, d as int, j));
                                    if this.sop(j, d as int).is_some() && other.sop(j, e as int).is_some() {
                                        let t = this.sop(j, d as int).unwrap() as int;
                                        assert(mi[t] != 0);
                                    }
                                }
                            }
                        }
                    } else if m[di] != ei {
                        proof {
                            assert forall|phi: Seq<usize>| !#[trigger] is_morphism(this, other, phi, img0) by {
                                if is_morphism(this, other, phi, img0) {
                                    assert(phi[d as int] == m@[d as int]);
                                    assert(phi[di as int] == m@[di as int]);
                                    assert(valid_at(this, other, phi, d as int));
                                    assert(op_ok(this, other, phi, d as int, i as int));
                                }
                            }
                        }
                        return None;
                    } else {
                        proof {
                            assert forall|j: int| 0 <= j < i + 1 implies #[trigger] op_ok(this, other, m@, d as int, j) by { }
                        }
                    }
                } else {
                    proof { assert forall|j: int| 0 <= j < i + 1 implies #[trigger] op_ok(this, other, m@, d as int, j) by { } }
                }
            } else {
                proof { assert forall|j: int| 0 <= j < i + 1 implies #[trigger] op_ok(this, other, m@, d as int, j) by { } }
            }
        }
        proof {
            assert(valid_at(this, other, m@, d as int));
            done = done.insert(d as int);
            qg = queue@;
        }
    }

    proof {
        assert forall|x: int| 1 <= x <= this.ssize() && m@[x] != 0 implies #[trigger] valid_at(this, other, m@, x) by {
            if in_queue(queue@, x) { }
            assert(done.contains(x));
        }
    }
    Some(m)
}

}
fn main() {}
