use vstd::prelude::*;
use vstd::std_specs::iter::*;
verus! {
fn f(lo: usize, hi: usize)
    requires hi < usize::MAX, lo + 3 < hi
{
    let r = lo..=hi;
    assert(IteratorSpec::will_return_none(&r));
}
}
fn main() {}
