use vstd::prelude::*;
verus! {
pub assume_specification<T, F: FnOnce(T) -> bool>[Option::<T>::is_some_and](o: Option<T>, f: F) -> (r: bool)
    requires o.is_some() ==> f.requires((o.unwrap(),)),
    ensures o.is_some() ==> f.ensures((o.unwrap(),), r),
           o.is_none() ==> !r,
;

pub open spec fn step(buf: Seq<isize>, x: isize) -> Seq<isize> {
    if buf.len() > 0 && x as int == -(buf.last() as int) { buf.drop_last() }
    else if x != 0 { buf.push(x) }
    else { buf }
}

pub open spec fn reduce_from(buf: Seq<isize>, s: Seq<isize>) -> Seq<isize>
    decreases s.len()
{
    if s.len() == 0 { buf } else { reduce_from(step(buf, s[0]), s.drop_first()) }
}

pub open spec fn letters_ok(s: Seq<isize>) -> bool {
    forall|k: int| 0 <= k < s.len() ==> #[trigger] s[k] > isize::MIN
}

fn normalized(w: Vec<isize>) -> (r: Vec<isize>)
    requires letters_ok(w@)
    ensures r@ == reduce_from(Seq::empty(), w@)
{
    let mut buffer = Vec::with_capacity(32);
    proof { assert(w@.skip(0) =~= w@); }

    for x in it: w.into_iter()
        invariant
            letters_ok(buffer@),
            it.seq() == w@,
            letters_ok(w@),
            0 <= it.index() <= it.seq().len(),
            reduce_from(buffer@, it.seq().skip(it.index() as int)) == reduce_from(Seq::empty(), w@),
    {
        proof {
            let rest = it.seq().skip(it.index() as int);
            assert(rest[0] == x);
            assert(x == it.seq()[it.index() as int]);
            assert(x > isize::MIN);
            assert(rest.drop_first() == it.seq().skip(it.index() + 1));
        }
        if buffer.last().is_some_and(|y: &isize| -> (b: bool) requires *y > isize::MIN ensures b == (x as int == -(*y as int)) { x == -y }) {
            buffer.pop();
        } else if x != 0 {
            buffer.push(x);
        }
    }

    proof { assert(w@.skip(w@.len() as int) =~= Seq::<isize>::empty()); }
    buffer
}
spec fn it_done(s: Seq<isize>) -> bool { s.skip(s.len() as int) == Seq::<isize>::empty() }
}
fn main() {}
