use vstd::prelude::*;
verus! {

pub assume_specification<T: Clone>[<[T]>::fill](s: &mut [T], value: T)
    ensures final(s)@.len() == old(s)@.len(),
        forall|i: int| 0 <= i < final(s)@.len() ==> final(s)@[i] == value,
;

struct SimpleDSet {
    size: usize,
    dim: usize,
    op: Vec<usize>,
    counter: usize,
}

spec fn sidx(dim: int, i: int, d: int) -> int { (d - 1) * (dim + 1) + i }

proof fn lemma_idx_bound(size: int, dim: int, i: int, d: int)
    requires 0 <= i <= dim, 1 <= d <= size,
    ensures 0 <= sidx(dim, i, d) < size * (dim + 1), dim + 1 <= size * (dim + 1), 0 <= (d - 1) * (dim + 1) <= sidx(dim, i, d)
{
    assert((d - 1) * (dim + 1) + i < size * (dim + 1)) by(nonlinear_arith)
        requires 0 <= i <= dim, 1 <= d <= size;
    assert(0 <= (d - 1) * (dim + 1)) by(nonlinear_arith)
        requires 0 <= dim, 1 <= d;
    assert(dim + 1 <= size * (dim + 1)) by(nonlinear_arith)
        requires 0 <= dim, 1 <= size;
}

impl SimpleDSet {
    #[verifier::opaque]
    spec fn sop(&self, i: int, d: int) -> int {
        self.op@[sidx(self.dim as int, i, d)] as int
    }

    spec fn wf(&self) -> bool {
        &&& self.size >= 1
        &&& self.dim >= 1
        &&& self.op@.len() == self.size * (self.dim + 1)
        &&& self.op@.len() <= usize::MAX
        &&& self.size < usize::MAX
        &&& forall|i: int, d: int| 0 <= i <= self.dim && 1 <= d <= self.size ==> {
                let e = #[trigger] self.sop(i, d);
                1 <= e <= self.size && self.sop(i, e) == d
            }
    }

    fn size(&self) -> (r: usize) ensures r == self.size { self.size }
    fn dim(&self) -> (r: usize) ensures r == self.dim { self.dim }

    fn idx(&self, i: usize, d: usize) -> (r: usize)
        requires self.wf(), i <= self.dim, 1 <= d <= self.size,
        ensures r == sidx(self.dim as int, i as int, d as int), r < self.op@.len(),
    {
        proof { lemma_idx_bound(self.size as int, self.dim as int, i as int, d as int); }
        (d - 1) * (self.dim + 1) + i
    }

    fn op_unchecked(&self, i: usize, d: usize) -> (r: usize)
        requires self.wf(), i <= self.dim, 1 <= d <= self.size,
        ensures r == self.sop(i as int, d as int), 1 <= r <= self.size, self.sop(i as int, r as int) == d,
    {
        proof { reveal(SimpleDSet::sop); }
        self.op[self.idx(i, d)]
    }
}

// orbit structure for index pair (i, i+1)
spec fn closed(ds: &SimpleDSet, i: int, seen: Seq<bool>) -> bool {
    forall|x: int| 1 <= x <= ds.size && #[trigger] seen[x] ==> seen[ds.sop(i, x)] && seen[ds.sop(i + 1, x)]
}

spec fn idx_ok(ds: &SimpleDSet, i: int, seen: Seq<bool>, oi: Seq<usize>, n: int) -> bool {
    forall|x: int| 1 <= x <= ds.size && #[trigger] seen[x] ==>
        oi[x] < n && oi[ds.sop(i, x)] == oi[x] && oi[ds.sop(i + 1, x)] == oi[x]
}

// ---- cycle structure of x |-> sop(i+1, sop(i, x)) ----
spec fn stepf(ds: &SimpleDSet, i: int, x: int) -> int { ds.sop(i + 1, ds.sop(i, x)) }

spec fn iter(ds: &SimpleDSet, i: int, x: int, k: nat) -> int
    decreases k
{
    if k == 0 { x } else { stepf(ds, i, iter(ds, i, x, (k - 1) as nat)) }
}

proof fn lemma_iter_range(ds: &SimpleDSet, i: int, x: int, k: nat)
    requires ds.wf(), 0 <= i < ds.dim, 1 <= x <= ds.size
    ensures 1 <= iter(ds, i, x, k) <= ds.size
    decreases k
{
    if k > 0 {
        lemma_iter_range(ds, i, x, (k - 1) as nat);
        let y = iter(ds, i, x, (k - 1) as nat);
        assert(1 <= ds.sop(i, y) <= ds.size);
        assert(1 <= ds.sop(i + 1, ds.sop(i, y)) <= ds.size);
    }
}

proof fn lemma_stepf_inj(ds: &SimpleDSet, i: int, x: int, y: int)
    requires ds.wf(), 0 <= i < ds.dim, 1 <= x <= ds.size, 1 <= y <= ds.size, stepf(ds, i, x) == stepf(ds, i, y)
    ensures x == y
{
    let a = ds.sop(i, x);
    let b = ds.sop(i, y);
    assert(1 <= a <= ds.size && 1 <= b <= ds.size);
    assert(ds.sop(i + 1, ds.sop(i + 1, a)) == a);
    assert(ds.sop(i + 1, ds.sop(i + 1, b)) == b);
    assert(a == b);
    assert(ds.sop(i, a) == x);
    assert(ds.sop(i, b) == y);
}

// no earlier return to d  ==>  the first n+1 iterates are pairwise distinct
proof fn lemma_iter_distinct(ds: &SimpleDSet, i: int, d: int, n: nat, j: nat, l: nat)
    requires ds.wf(), 0 <= i < ds.dim, 1 <= d <= ds.size, j < l <= n,
        forall|k: nat| 0 < k <= n ==> #[trigger] iter(ds, i, d, k) != d,
    ensures iter(ds, i, d, j) != iter(ds, i, d, l)
    decreases j
{
    if j == 0 {
    } else {
        lemma_iter_distinct(ds, i, d, n, (j - 1) as nat, (l - 1) as nat);
        lemma_iter_range(ds, i, d, (j - 1) as nat);
        lemma_iter_range(ds, i, d, (l - 1) as nat);
        if iter(ds, i, d, j) == iter(ds, i, d, l) {
            lemma_stepf_inj(ds, i, iter(ds, i, d, (j - 1) as nat), iter(ds, i, d, (l - 1) as nat));
        }
    }
}

// pigeonhole: a duplicate-free sequence of values in 1..=n has length <= n
proof fn lemma_pigeon(s: Seq<int>, n: int)
    requires n >= 0, forall|k: int| 0 <= k < s.len() ==> 1 <= #[trigger] s[k] <= n,
        forall|a: int, b: int| 0 <= a < b < s.len() ==> s[a] != s[b],
    ensures s.len() <= n
    decreases n
{
    if s.len() == 0 {
    } else if n == 0 {
        assert(1 <= s[0] <= 0);
    } else {
        if exists|p: int| 0 <= p < s.len() && s[p] == n {
            let p = choose|p: int| 0 <= p < s.len() && s[p] == n;
            let t = s.remove(p);
            assert forall|k: int| 0 <= k < t.len() implies 1 <= #[trigger] t[k] <= n - 1 by {
                if k < p { assert(t[k] == s[k]); assert(s[k] != s[p]); } else { assert(t[k] == s[k + 1]); assert(s[p] != s[k + 1]); }
            }
            assert forall|a: int, b: int| 0 <= a < b < t.len() implies t[a] != t[b] by {
                let a2 = if a < p { a } else { a + 1 };
                let b2 = if b < p { b } else { b + 1 };
                assert(t[a] == s[a2] && t[b] == s[b2]);
            }
            lemma_pigeon(t, n - 1);
        } else {
            assert forall|k: int| 0 <= k < s.len() implies 1 <= #[trigger] s[k] <= n - 1 by { }
            lemma_pigeon(s, n - 1);
        }
    }
}

proof fn lemma_steps_bound(ds: &SimpleDSet, i: int, d: int, n: nat)
    requires ds.wf(), 0 <= i < ds.dim, 1 <= d <= ds.size,
        forall|k: nat| 0 < k <= n ==> #[trigger] iter(ds, i, d, k) != d,
    ensures n + 1 <= ds.size
{
    let s = Seq::new(n + 1, |k: int| iter(ds, i, d, k as nat));
    assert forall|k: int| 0 <= k < s.len() implies 1 <= #[trigger] s[k] <= ds.size by { lemma_iter_range(ds, i, d, k as nat); }
    assert forall|a: int, b: int| 0 <= a < b < s.len() implies s[a] != s[b] by { lemma_iter_distinct(ds, i, d, n, a as nat, b as nat); }
    lemma_pigeon(s, ds.size as int);
}

#[verifier::opaque]
spec fn orb_ok(ds: &SimpleDSet, j: int, oi: Seq<usize>, n: int) -> bool {
    forall|x: int| 1 <= x <= ds.size ==>
        (#[trigger] oi[x]) < n && oi[ds.sop(j, x)] == oi[x] && oi[ds.sop(j + 1, x)] == oi[x]
}

proof fn lemma_orb_ok_mono(ds: &SimpleDSet, j: int, oi: Seq<usize>, n: int, m: int)
    requires orb_ok(ds, j, oi, n), n <= m
    ensures orb_ok(ds, j, oi, m)
{
    reveal(orb_ok);
}

proof fn lemma_orb_ok_intro(ds: &SimpleDSet, i: int, seen: Seq<bool>, oi: Seq<usize>, n: int)
    requires ds.wf(), 0 <= i < ds.dim, seen.len() == ds.size + 1, oi.len() == ds.size + 1,
        idx_ok(ds, i, seen, oi, n), forall|x: int| 1 <= x <= ds.size ==> seen[x]
    ensures orb_ok(ds, i, oi, n)
{
    reveal(orb_ok);
    assert forall|x: int| 1 <= x <= ds.size implies
        (#[trigger] oi[x]) < n && oi[ds.sop(i, x)] == oi[x] && oi[ds.sop(i + 1, x)] == oi[x] by {
        assert(seen[x]);
    }
}


// ---------- inner-loop invariant as one predicate over abstract sequences ----------
spec fn inner_inv(ds: &SimpleDSet, i: int, d: int, e: int, steps: int,
                  seen0: Seq<bool>, oi0: Seq<usize>, seen: Seq<bool>, oi: Seq<usize>, nr: usize) -> bool {
    &&& seen0.len() == ds.size + 1 && oi0.len() == ds.size + 1 && seen.len() == ds.size + 1 && oi.len() == ds.size + 1
    &&& 1 <= d <= ds.size && 1 <= e <= ds.size
    &&& closed(ds, i, seen0) && !seen0[d] && !seen0[e]
    &&& forall|x: int| 1 <= x <= ds.size && seen0[x] ==> #[trigger] seen[x] && oi[x] == oi0[x]
    &&& forall|x: int| 1 <= x <= ds.size && #[trigger] seen[x] && !seen0[x] ==> {
            &&& oi[x] == nr
            &&& (seen[ds.sop(i, x)] || x == e || ds.sop(i, x) == d)
            &&& (seen[ds.sop(i + 1, x)] || ds.sop(i + 1, x) == d)
            &&& !seen0[ds.sop(i, x)] && !seen0[ds.sop(i + 1, x)]
        }
    &&& (steps == 0 ==> e == d)
    &&& (steps > 0 ==> seen[e] && seen[ds.sop(i, d)])
}

spec fn final_inv(ds: &SimpleDSet, i: int, d: int,
                  seen0: Seq<bool>, oi0: Seq<usize>, seen: Seq<bool>, oi: Seq<usize>, nr: usize) -> bool {
    &&& seen.len() == ds.size + 1 && oi.len() == ds.size + 1
    &&& seen[d]
    &&& forall|x: int| 1 <= x <= ds.size && seen0[x] ==> #[trigger] seen[x] && oi[x] == oi0[x]
    &&& forall|x: int| 1 <= x <= ds.size && #[trigger] seen[x] && !seen0[x] ==> {
            &&& oi[x] == nr
            &&& seen[ds.sop(i, x)]
            &&& seen[ds.sop(i + 1, x)]
            &&& !seen0[ds.sop(i, x)] && !seen0[ds.sop(i + 1, x)]
        }
}

proof fn lemma_inner_step(ds: &SimpleDSet, i: int, d: int, e: int, steps: int,
                          seen0: Seq<bool>, oi0: Seq<usize>, seen: Seq<bool>, oi: Seq<usize>, nr: usize)
    requires ds.wf(), 0 <= i < ds.dim, steps >= 0,
        inner_inv(ds, i, d, e, steps, seen0, oi0, seen, oi, nr),
        steps > 0 ==> e != d,
    ensures ({
        let ei = ds.sop(i, e);
        let e2 = ds.sop(i + 1, ei);
        let seen2 = seen.update(ei, true).update(e2, true);
        let oi2 = oi.update(ei, nr).update(e2, nr);
        &&& 1 <= ei <= ds.size && 1 <= e2 <= ds.size
        &&& (e2 != d ==> inner_inv(ds, i, d, e2, steps + 1, seen0, oi0, seen2, oi2, nr))
        &&& (e2 == d ==> final_inv(ds, i, d, seen0, oi0, seen2, oi2, nr))
    })
{
    let ei = ds.sop(i, e);
    let e2 = ds.sop(i + 1, ei);
    let seen2 = seen.update(ei, true).update(e2, true);
    let oi2 = oi.update(ei, nr).update(e2, nr);
    assert(1 <= ei <= ds.size && ds.sop(i, ei) == e);
    assert(1 <= e2 <= ds.size && ds.sop(i + 1, e2) == ei);
    if seen0[ei] { assert(seen0[ds.sop(i, ei)]); }
    if seen0[e2] { assert(seen0[ds.sop(i + 1, e2)]); }
    assert(!seen0[ei] && !seen0[e2]);
    assert forall|x: int| 1 <= x <= ds.size && seen0[x] implies #[trigger] seen2[x] && oi2[x] == oi0[x] by {
        assert(seen[x]);
        assert(x != ei && x != e2);
    }
    // facts about the partners of the two fresh elements
    let a1 = ds.sop(i + 1, ei);   // == e2
    let b1 = ds.sop(i, e2);
    let b2 = ds.sop(i + 1, e2);   // == ei
    assert(1 <= b1 <= ds.size && ds.sop(i, b1) == e2);
    if seen0[b1] { assert(seen0[ds.sop(i, b1)]); }
    assert(!seen0[b1]);
    if seen0[e] { }
    assert forall|x: int| 1 <= x <= ds.size && #[trigger] seen2[x] && !seen0[x] implies ({
            &&& oi2[x] == nr
            &&& (seen2[ds.sop(i, x)] || x == e2 || ds.sop(i, x) == d)
            &&& (seen2[ds.sop(i + 1, x)] || ds.sop(i + 1, x) == d)
            &&& !seen0[ds.sop(i, x)] && !seen0[ds.sop(i + 1, x)]
        }) by {
        let sx = ds.sop(i, x);
        let tx = ds.sop(i + 1, x);
        assert(1 <= sx <= ds.size && 1 <= tx <= ds.size);
        if x == e2 {
        } else if x == ei {
            // sop(i, ei) == e : either e seen before (steps>0), or e == d (steps == 0)
        } else {
            assert(seen[x]);
            // previously: seen[sx] || x == e || sx == d ; now x == e is covered since sop(i,e)=ei is seen2
            if x == e { assert(sx == ei); }
        }
    }
    if e2 != d {
        assert(inner_inv(ds, i, d, e2, steps + 1, seen0, oi0, seen2, oi2, nr));
    } else {
        assert forall|x: int| 1 <= x <= ds.size && #[trigger] seen2[x] && !seen0[x] implies ({
            &&& oi2[x] == nr
            &&& seen2[ds.sop(i, x)]
            &&& seen2[ds.sop(i + 1, x)]
            &&& !seen0[ds.sop(i, x)] && !seen0[ds.sop(i + 1, x)]
        }) by {
            let sx = ds.sop(i, x);
            let tx = ds.sop(i + 1, x);
            assert(1 <= sx <= ds.size && 1 <= tx <= ds.size);
            if x == e2 { // == d : sop(i,d) is seen (steps>0) or equals ei (steps==0, e==d)
            } else if x == ei {
            } else {
                assert(seen[x]);
                if x == e { assert(sx == ei); }
            }
        }
    }
}

proof fn lemma_final_to_outer(ds: &SimpleDSet, i: int, d: int,
                  seen0: Seq<bool>, oi0: Seq<usize>, seen: Seq<bool>, oi: Seq<usize>, nr: usize, n: int)
    requires ds.wf(), 0 <= i < ds.dim, 1 <= d <= ds.size, nr < n + 1, nr == n,
        seen0.len() == ds.size + 1, oi0.len() == ds.size + 1,
        closed(ds, i, seen0), idx_ok(ds, i, seen0, oi0, n),
        final_inv(ds, i, d, seen0, oi0, seen, oi, nr),
    ensures closed(ds, i, seen), idx_ok(ds, i, seen, oi, n + 1)
{
    assert forall|x: int| 1 <= x <= ds.size && #[trigger] seen[x] implies seen[ds.sop(i, x)] && seen[ds.sop(i + 1, x)] by {
        if seen0[x] {
            assert(seen0[ds.sop(i, x)] && seen0[ds.sop(i + 1, x)]);
            assert(1 <= ds.sop(i, x) <= ds.size && 1 <= ds.sop(i + 1, x) <= ds.size);
        }
    }
    assert forall|x: int| 1 <= x <= ds.size && #[trigger] seen[x] implies
        oi[x] < n + 1 && oi[ds.sop(i, x)] == oi[x] && oi[ds.sop(i + 1, x)] == oi[x] by {
        let a = ds.sop(i, x);
        let b = ds.sop(i + 1, x);
        assert(1 <= a <= ds.size && 1 <= b <= ds.size);
        if seen0[x] {
            assert(seen0[a] && seen0[b]);
            assert(seen[a] && seen[b]);
        } else {
            assert(seen[a] && seen[b]);
            assert(!seen0[a] && !seen0[b]);
        }
    }
}

#[verifier::exec_allows_no_decreases_clause]
fn collect_orbits(ds: &SimpleDSet)
    -> (res: (Vec<usize>, Vec<bool>, Vec<Vec<usize>>))
    requires ds.wf()
    ensures
        res.0@.len() == res.1@.len(),
        res.2@.len() == ds.dim,
        forall|i: int| 0 <= i < ds.dim ==> (#[trigger] res.2@[i])@.len() == ds.size + 1,
        forall|i: int| 0 <= i < ds.dim ==> orb_ok(ds, i, (#[trigger] res.2@[i])@, res.0@.len() as int),
        forall|k: int| 0 <= k < res.0@.len() ==> #[trigger] res.0@[k] >= 1,
{
    let mut orbit_rs: Vec<usize> = vec![];
    let mut orbit_is_chain: Vec<bool> = vec![];
    let mut orbit_index = vec![vec![0; ds.size() + 1]; ds.dim()];
    let mut seen = vec![false; ds.size() + 1];

    for i in 0..ds.dim()
        invariant
            ds.wf(),
            orbit_rs@.len() == orbit_is_chain@.len(),
            seen@.len() == ds.size + 1,
            orbit_index@.len() == ds.dim,
            forall|j: int| 0 <= j < ds.dim ==> (#[trigger] orbit_index@[j])@.len() == ds.size + 1,
            forall|j: int| 0 <= j < i ==> orb_ok(ds, j, (#[trigger] orbit_index@[j])@, orbit_rs@.len() as int),
            forall|k: int| 0 <= k < orbit_rs@.len() ==> #[trigger] orbit_rs@[k] >= 1,
    {
        seen.fill(false);

        for d in 1..(ds.size()) + 1
            invariant
                ds.wf(), 0 <= i < ds.dim,
                orbit_rs@.len() == orbit_is_chain@.len(),
                seen@.len() == ds.size + 1,
                orbit_index@.len() == ds.dim,
                forall|j: int| 0 <= j < ds.dim ==> (#[trigger] orbit_index@[j])@.len() == ds.size + 1,
                forall|j: int| 0 <= j < i ==> orb_ok(ds, j, (#[trigger] orbit_index@[j])@, orbit_rs@.len() as int),
                forall|k: int| 0 <= k < orbit_rs@.len() ==> #[trigger] orbit_rs@[k] >= 1,
                closed(ds, i as int, seen@),
                idx_ok(ds, i as int, seen@, orbit_index@[i as int]@, orbit_rs@.len() as int),
                forall|x: int| 1 <= x < d ==> seen@[x],
        {
            if !seen[d] {
                let orbit_nr = orbit_rs.len();
                let mut e = d;
                let mut steps: usize = 0;
                let mut is_chain = false;
                let ghost seen0 = seen@;
                let ghost oi0 = orbit_index@;

                loop
                    invariant_except_break
                        forall|k: nat| 0 < k <= steps ==> #[trigger] iter(ds, i as int, d as int, k) != d,
                        inner_inv(ds, i as int, d as int, e as int, steps as int, seen0, oi0[i as int]@, seen@, orbit_index@[i as int]@, orbit_nr),
                    invariant
                        ds.wf(), 0 <= i < ds.dim, 1 <= d <= ds.size, 1 <= e <= ds.size,
                        orbit_nr == orbit_rs@.len(),
                        orbit_rs@.len() == orbit_is_chain@.len(),
                        seen@.len() == ds.size + 1, seen0.len() == ds.size + 1,
                        orbit_index@.len() == ds.dim, oi0.len() == ds.dim,
                        forall|j: int| 0 <= j < ds.dim ==> (#[trigger] orbit_index@[j])@.len() == ds.size + 1,
                        forall|j: int| 0 <= j < ds.dim && j != i ==> #[trigger] orbit_index@[j] == oi0[j],
                        e == iter(ds, i as int, d as int, steps as nat),
                    ensures
                        steps >= 1,
                        iter(ds, i as int, d as int, steps as nat) == d,
                        forall|k: nat| 0 < k < steps ==> #[trigger] iter(ds, i as int, d as int, k) != d,
                        final_inv(ds, i as int, d as int, seen0, oi0[i as int]@, seen@, orbit_index@[i as int]@, orbit_nr),
                {
                    proof {
                        lemma_steps_bound(ds, i as int, d as int, steps as nat);
                        lemma_inner_step(ds, i as int, d as int, e as int, steps as int, seen0, oi0[i as int]@, seen@, orbit_index@[i as int]@, orbit_nr);
                    }
                    let ghost seen_b = seen@;
                    let ghost oi_b = orbit_index@[i as int]@;
                    let ei = ds.op_unchecked(i, e);
                    is_chain = is_chain || (ei == e);
                    orbit_index[i][ei] = orbit_nr;
                    seen[ei] = true;

                    e = ds.op_unchecked(i + 1, ei);
                    is_chain = is_chain || (e == ei);
                    orbit_index[i][e] = orbit_nr;
                    seen[e] = true;

                    steps += 1;
                    proof {
                        assert(seen@ =~= seen_b.update(ei as int, true).update(e as int, true));
                        assert(orbit_index@[i as int]@ =~= oi_b.update(ei as int, orbit_nr).update(e as int, orbit_nr));
                    }

                    if e == d {
                        break;
                    }
                }

                proof {
                    lemma_final_to_outer(ds, i as int, d as int, seen0, oi0[i as int]@, seen@, orbit_index@[i as int]@, orbit_nr, orbit_rs@.len() as int);
                    assert forall|j: int| 0 <= j < i implies orb_ok(ds, j, (#[trigger] orbit_index@[j])@, orbit_rs@.len() as int + 1) by {
                        assert(orbit_index@[j] == oi0[j]);
                        lemma_orb_ok_mono(ds, j, oi0[j]@, orbit_rs@.len() as int, orbit_rs@.len() as int + 1);
                    }
                }
                orbit_rs.push(steps);
                orbit_is_chain.push(is_chain);
            }
        }
        proof {
            lemma_orb_ok_intro(ds, i as int, seen@, orbit_index@[i as int]@, orbit_rs@.len() as int);
        }
    }

    (orbit_rs, orbit_is_chain, orbit_index)
}

} // verus!
fn main() {}
