use vstd::prelude::*;
verus! {

pub assume_specification<T: Clone>[<[T]>::fill](s: &mut [T], value: T)
    ensures final(s)@.len() == old(s)@.len(),
        forall|i: int| 0 <= i < final(s)@.len() ==> final(s)@[i] == value,
;

struct SimpleDSet {
    size: usize,
    dim: usize,
    op: Vec<usize>,
    counter: usize,
}

spec fn sidx(dim: int, i: int, d: int) -> int { (d - 1) * (dim + 1) + i }

proof fn lemma_idx_bound(size: int, dim: int, i: int, d: int)
    requires 0 <= i <= dim, 1 <= d <= size,
    ensures 0 <= sidx(dim, i, d) < size * (dim + 1), dim + 1 <= size * (dim + 1), 0 <= (d - 1) * (dim + 1) <= sidx(dim, i, d)
{
    assert((d - 1) * (dim + 1) + i < size * (dim + 1)) by(nonlinear_arith)
        requires 0 <= i <= dim, 1 <= d <= size;
    assert(0 <= (d - 1) * (dim + 1)) by(nonlinear_arith)
        requires 0 <= dim, 1 <= d;
    assert(dim + 1 <= size * (dim + 1)) by(nonlinear_arith)
        requires 0 <= dim, 1 <= size;
}

impl SimpleDSet {
    #[verifier::opaque]
    spec fn sop(&self, i: int, d: int) -> int {
        self.op@[sidx(self.dim as int, i, d)] as int
    }

    spec fn wf(&self) -> bool {
        &&& self.size >= 1
        &&& self.dim >= 1
        &&& self.op@.len() == self.size * (self.dim + 1)
        &&& self.op@.len() <= usize::MAX
        &&& self.size < usize::MAX
        &&& forall|i: int, d: int| 0 <= i <= self.dim && 1 <= d <= self.size ==> {
                let e = #[trigger] self.sop(i, d);
                1 <= e <= self.size && self.sop(i, e) == d
            }
    }

    fn size(&self) -> (r: usize) ensures r == self.size { self.size }
    fn dim(&self) -> (r: usize) ensures r == self.dim { self.dim }

    fn idx(&self, i: usize, d: usize) -> (r: usize)
        requires self.wf(), i <= self.dim, 1 <= d <= self.size,
        ensures r == sidx(self.dim as int, i as int, d as int), r < self.op@.len(),
    {
        proof { lemma_idx_bound(self.size as int, self.dim as int, i as int, d as int); }
        (d - 1) * (self.dim + 1) + i
    }

    fn op_unchecked(&self, i: usize, d: usize) -> (r: usize)
        requires self.wf(), i <= self.dim, 1 <= d <= self.size,
        ensures r == self.sop(i as int, d as int), 1 <= r <= self.size, self.sop(i as int, r as int) == d,
    {
        proof { reveal(SimpleDSet::sop); }
        self.op[self.idx(i, d)]
    }
}

// orbit structure for index pair (i, i+1)
spec fn closed(ds: &SimpleDSet, i: int, seen: Seq<bool>) -> bool {
    forall|x: int| 1 <= x <= ds.size && #[trigger] seen[x] ==> seen[ds.sop(i, x)] && seen[ds.sop(i + 1, x)]
}

spec fn idx_ok(ds: &SimpleDSet, i: int, seen: Seq<bool>, oi: Seq<usize>, n: int) -> bool {
    forall|x: int| 1 <= x <= ds.size && #[trigger] seen[x] ==>
        oi[x] < n && oi[ds.sop(i, x)] == oi[x] && oi[ds.sop(i + 1, x)] == oi[x]
}

#[verifier::opaque]
spec fn orb_ok(ds: &SimpleDSet, j: int, oi: Seq<usize>, n: int) -> bool {
    forall|x: int| 1 <= x <= ds.size ==>
        (#[trigger] oi[x]) < n && oi[ds.sop(j, x)] == oi[x] && oi[ds.sop(j + 1, x)] == oi[x]
}

proof fn lemma_orb_ok_mono(ds: &SimpleDSet, j: int, oi: Seq<usize>, n: int, m: int)
    requires orb_ok(ds, j, oi, n), n <= m
    ensures orb_ok(ds, j, oi, m)
{
    reveal(orb_ok);
}

proof fn lemma_orb_ok_intro(ds: &SimpleDSet, i: int, seen: Seq<bool>, oi: Seq<usize>, n: int)
    requires ds.wf(), 0 <= i < ds.dim, seen.len() == ds.size + 1, oi.len() == ds.size + 1,
        idx_ok(ds, i, seen, oi, n), forall|x: int| 1 <= x <= ds.size ==> seen[x]
    ensures orb_ok(ds, i, oi, n)
{
    reveal(orb_ok);
    assert forall|x: int| 1 <= x <= ds.size implies
        (#[trigger] oi[x]) < n && oi[ds.sop(i, x)] == oi[x] && oi[ds.sop(i + 1, x)] == oi[x] by {
        assert(seen[x]);
    }
}

#[verifier::exec_allows_no_decreases_clause]
fn collect_orbits(ds: &SimpleDSet)
    -> (res: (Vec<usize>, Vec<bool>, Vec<Vec<usize>>))
    requires ds.wf()
    ensures
        res.0@.len() == res.1@.len(),
        res.2@.len() == ds.dim,
        forall|i: int| 0 <= i < ds.dim ==> (#[trigger] res.2@[i])@.len() == ds.size + 1,
        forall|i: int| 0 <= i < ds.dim ==> orb_ok(ds, i, (#[trigger] res.2@[i])@, res.0@.len() as int),
        forall|k: int| 0 <= k < res.0@.len() ==> #[trigger] res.0@[k] >= 1,
{
    let mut orbit_rs: Vec<usize> = vec![];
    let mut orbit_is_chain: Vec<bool> = vec![];
    let mut orbit_index = vec![vec![0; ds.size() + 1]; ds.dim()];
    let mut seen = vec![false; ds.size() + 1];

    for i in 0..ds.dim()
        invariant
            ds.wf(),
            orbit_rs@.len() == orbit_is_chain@.len(),
            seen@.len() == ds.size + 1,
            orbit_index@.len() == ds.dim,
            forall|j: int| 0 <= j < ds.dim ==> (#[trigger] orbit_index@[j])@.len() == ds.size + 1,
            forall|j: int| 0 <= j < i ==> orb_ok(ds, j, (#[trigger] orbit_index@[j])@, orbit_rs@.len() as int),
            forall|k: int| 0 <= k < orbit_rs@.len() ==> #[trigger] orbit_rs@[k] >= 1,
    {
        seen.fill(false);

        for d in 1..(ds.size()) + 1
            invariant
                ds.wf(), 0 <= i < ds.dim,
                orbit_rs@.len() == orbit_is_chain@.len(),
                seen@.len() == ds.size + 1,
                orbit_index@.len() == ds.dim,
                forall|j: int| 0 <= j < ds.dim ==> (#[trigger] orbit_index@[j])@.len() == ds.size + 1,
                forall|j: int| 0 <= j < i ==> orb_ok(ds, j, (#[trigger] orbit_index@[j])@, orbit_rs@.len() as int),
                forall|k: int| 0 <= k < orbit_rs@.len() ==> #[trigger] orbit_rs@[k] >= 1,
                closed(ds, i as int, seen@),
                idx_ok(ds, i as int, seen@, orbit_index@[i as int]@, orbit_rs@.len() as int),
                forall|x: int| 1 <= x < d ==> seen@[x],
        {
            if !seen[d] {
                let orbit_nr = orbit_rs.len();
                let mut e = d;
                let mut steps: usize = 0;
                let mut is_chain = false;
                let ghost seen0 = seen@;
                let ghost oi0 = orbit_index@;

                loop
                    invariant
                        ds.wf(), 0 <= i < ds.dim, 1 <= d <= ds.size, 1 <= e <= ds.size,
                        orbit_nr == orbit_rs@.len(),
                        orbit_rs@.len() == orbit_is_chain@.len(),
                        seen@.len() == ds.size + 1,
                        orbit_index@.len() == ds.dim,
                        forall|j: int| 0 <= j < ds.dim ==> (#[trigger] orbit_index@[j])@.len() == ds.size + 1,
                        forall|j: int| 0 <= j < ds.dim && j != i ==> #[trigger] orbit_index@[j] == oi0[j],
                        steps < usize::MAX,
                        // old part untouched
                        closed(ds, i as int, seen0), !seen0[d as int], !seen0[e as int],
                        forall|x: int| 1 <= x <= ds.size && seen0[x] ==> #[trigger] seen@[x] && orbit_index@[i as int]@[x] == oi0[i as int]@[x],
                        // new part
                        forall|x: int| 1 <= x <= ds.size && #[trigger] seen@[x] && !seen0[x] ==> {
                            &&& orbit_index@[i as int]@[x] == orbit_nr
                            &&& (seen@[ds.sop(i as int, x)] || x == e || ds.sop(i as int, x) == d)
                            &&& (seen@[ds.sop(i + 1, x)] || ds.sop(i + 1, x) == d)
                            &&& !seen0[ds.sop(i as int, x)] && !seen0[ds.sop(i + 1, x)]
                        },
                        !seen@[d as int] ==> (steps == 0 ==> e == d),
                        steps > 0 ==> seen@[e as int],
                        steps > 0 ==> seen@[ds.sop(i as int, d as int)],
                    ensures
                        e == d, steps >= 1,
                        orbit_nr == orbit_rs@.len(),
                        orbit_rs@.len() == orbit_is_chain@.len(),
                        seen@.len() == ds.size + 1,
                        orbit_index@.len() == ds.dim,
                        forall|j: int| 0 <= j < ds.dim ==> (#[trigger] orbit_index@[j])@.len() == ds.size + 1,
                        forall|j: int| 0 <= j < ds.dim && j != i ==> #[trigger] orbit_index@[j] == oi0[j],
                        forall|x: int| 1 <= x <= ds.size && seen0[x] ==> #[trigger] seen@[x] && orbit_index@[i as int]@[x] == oi0[i as int]@[x],
                        seen@[d as int],
                        forall|x: int| 1 <= x <= ds.size && #[trigger] seen@[x] && !seen0[x] ==> {
                            &&& orbit_index@[i as int]@[x] == orbit_nr
                            &&& seen@[ds.sop(i as int, x)]
                            &&& seen@[ds.sop(i + 1, x)]
                            &&& !seen0[ds.sop(i as int, x)] && !seen0[ds.sop(i + 1, x)]
                        },
                {
                    let ei = ds.op_unchecked(i, e);
                    is_chain = is_chain || (ei == e);
                    orbit_index[i][ei] = orbit_nr;
                    seen[ei] = true;

                    e = ds.op_unchecked(i + 1, ei);
                    is_chain = is_chain || (e == ei);
                    orbit_index[i][e] = orbit_nr;
                    seen[e] = true;

                    steps += 1;

                    if e == d {
                        break;
                    }
                }

                proof {
                    let ii = i as int;
                    assert forall|x: int| 1 <= x <= ds.size && #[trigger] seen@[x] implies seen@[ds.sop(ii, x)] && seen@[ds.sop(ii + 1, x)] by {
                        if seen0[x] {
                            assert(seen0[ds.sop(ii, x)] && seen0[ds.sop(ii + 1, x)]);
                            assert(1 <= ds.sop(ii, x) <= ds.size && 1 <= ds.sop(ii + 1, x) <= ds.size);
                        }
                    }
                    assert(closed(ds, ii, seen@));
                    assert forall|x: int| 1 <= x <= ds.size && #[trigger] seen@[x] implies
                        orbit_index@[ii]@[x] < orbit_rs@.len() + 1
                        && orbit_index@[ii]@[ds.sop(ii, x)] == orbit_index@[ii]@[x]
                        && orbit_index@[ii]@[ds.sop(ii + 1, x)] == orbit_index@[ii]@[x] by {
                        let a = ds.sop(ii, x);
                        let b = ds.sop(ii + 1, x);
                        assert(1 <= a <= ds.size && 1 <= b <= ds.size);
                        if seen0[x] {
                            assert(seen0[a] && seen0[b]);
                            assert(seen@[a] && seen@[b]);
                        } else {
                            assert(seen@[a] && seen@[b]);
                            assert(!seen0[a] && !seen0[b]);
                        }
                    }
                    assert forall|j: int| 0 <= j < i implies orb_ok(ds, j, (#[trigger] orbit_index@[j])@, orbit_rs@.len() as int + 1) by {
                        assert(orbit_index@[j] == oi0[j]);
                        lemma_orb_ok_mono(ds, j, oi0[j]@, orbit_rs@.len() as int, orbit_rs@.len() as int + 1);
                    }
                }
                orbit_rs.push(steps);
                orbit_is_chain.push(is_chain);
            }
        }
        proof {
            lemma_orb_ok_intro(ds, i as int, seen@, orbit_index@[i as int]@, orbit_rs@.len() as int);
        }
    }

    (orbit_rs, orbit_is_chain, orbit_index)
}

} // verus!
fn main() {}
