use vstd::prelude::*;
use vstd::std_specs::cmp::*;
use std::cmp::Ordering;
verus! {
pub struct W { pub w: Vec<isize> }

pub uninterp spec fn word_cmp(a: Seq<isize>, b: Seq<isize>) -> Ordering;

impl PartialEqSpecImpl for W {
    open spec fn obeys_eq_spec() -> bool { false }
    open spec fn eq_spec(&self, other: &W) -> bool { self.w@ == other.w@ }
}
impl PartialEq for W {
    fn eq(&self, other: &Self) -> bool { self.w == other.w }
}
impl Eq for W {}

impl PartialOrdSpecImpl for W {
    open spec fn obeys_partial_cmp_spec() -> bool { true }
    open spec fn partial_cmp_spec(&self, other: &W) -> Option<Ordering> { Some(word_cmp(self.w@, other.w@)) }
}
impl PartialOrd for W {
    fn partial_cmp(&self, other: &Self) -> (r: Option<Ordering>)
    {
        Some(self.cmp(&other))
    }
}

impl OrdSpecImpl for W {
    open spec fn obeys_cmp_spec() -> bool { true }
    open spec fn cmp_spec(&self, other: &W) -> Ordering { word_cmp(self.w@, other.w@) }
}
impl Ord for W {
    #[verifier::external_body]
    fn cmp(&self, other: &Self) -> (r: Ordering)
    { unimplemented!() }
}

fn user(a: &W, b: &W) -> (r: bool)
    ensures r == (word_cmp(a.w@, b.w@) == Ordering::Less)
{
    a < b
}
fn user2(a: W, b: W) -> (r: bool)
    ensures r == (word_cmp(a.w@, b.w@) == Ordering::Less)
{
    a < b
}
}
fn main() {}
