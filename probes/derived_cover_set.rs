use vstd::prelude::*;
use vstd::arithmetic::div_mod::*;
verus! {

// ---- base symbol interface (complete D-symbol) ----
pub trait DSym: Sized {
    spec fn ssize(&self) -> int;
    spec fn sdim(&self) -> int;
    spec fn sop(&self, i: int, d: int) -> int;
    spec fn wf(&self) -> bool;
    proof fn lemma_wf(&self)
        requires self.wf()
        ensures 1 <= self.ssize() < usize::MAX, 1 <= self.sdim() < usize::MAX,
            forall|i: int, d: int| 0 <= i <= self.sdim() && 1 <= d <= self.ssize() ==>
                1 <= #[trigger] self.sop(i, d) <= self.ssize() && self.sop(i, self.sop(i, d)) == d;
    fn size(&self) -> (r: usize) requires self.wf() ensures r == self.ssize();
    fn dim(&self) -> (r: usize) requires self.wf() ensures r == self.sdim();
    fn op(&self, i: usize, d: usize) -> (r: Option<usize>) requires self.wf()
        ensures r == (if i <= self.sdim() && 1 <= d <= self.ssize() { Some(self.sop(i as int, d as int) as usize) } else { None });
}

// ---- PartialDSet and build_set by contract (verified in probes/derived_build_set.rs) ----
pub struct PartialDSet { pub size: usize, pub dim: usize, pub op: Vec<usize> }
impl PartialDSet {
    pub uninterp spec fn sop(&self, i: int, d: int) -> int;
    pub uninterp spec fn wf(&self) -> bool;
    pub open spec fn view_op(&self, i: int, d: int) -> Option<usize> {
        if self.sop(i, d) == 0 { None } else { Some(self.sop(i, d) as usize) }
    }
}
pub open spec fn deterministic<F: Fn(usize, usize) -> Option<usize>>(op: F, size: usize, dim: usize) -> bool {
    forall|i: usize, d: usize, r1: Option<usize>, r2: Option<usize>|
        #![trigger op.ensures((i, d), r1), op.ensures((i, d), r2)]
        i <= dim && 1 <= d <= size && op.ensures((i, d), r1) && op.ensures((i, d), r2) ==> r1 == r2
}
pub open spec fn consistent<F: Fn(usize, usize) -> Option<usize>>(op: F, size: usize, dim: usize) -> bool {
    &&& forall|i: usize, d: usize, e: usize| #![trigger op.ensures((i, d), Some(e))]
            i <= dim && 1 <= d <= size && op.ensures((i, d), Some(e)) ==> 1 <= e <= size
    &&& forall|i: usize, d: usize, e: usize, r: Option<usize>| #![trigger op.ensures((i, d), Some(e)), op.ensures((i, e), r)]
            i <= dim && 1 <= d <= size && op.ensures((i, d), Some(e)) && op.ensures((i, e), r) ==> r == Some(d)
    &&& forall|i: usize, a: usize, b: usize, e: usize| #![trigger op.ensures((i, a), Some(e)), op.ensures((i, b), Some(e))]
            i <= dim && 1 <= a <= size && 1 <= b <= size && op.ensures((i, a), Some(e)) && op.ensures((i, b), Some(e)) ==> a == b
}
#[verifier::external_body]
pub fn build_set<F>(size: usize, dim: usize, op: F) -> (dset: PartialDSet)
    where F: Fn(usize, usize) -> Option<usize>
    requires size >= 1, dim >= 1, size * (dim + 1) <= usize::MAX, size < usize::MAX, dim < usize::MAX,
        forall|i: usize, d: usize| i <= dim && 1 <= d <= size ==> op.requires((i, d)),
        deterministic(op, size, dim), consistent(op, size, dim),
    ensures dset.wf(), dset.size == size, dset.dim == dim,
        forall|i: usize, d: usize| i <= dim && 1 <= d <= size ==> op.ensures((i, d), #[trigger] dset.view_op(i as int, d as int)),
        forall|i: int, d: int| 0 <= i <= dim && 1 <= d <= size ==> 0 <= #[trigger] dset.sop(i, d) <= size,   // part of wf in the real unit
{ unimplemented!() }

// ---- arithmetic of the sheet numbering: d = sz*k + c, 1 <= c <= sz ----
pub open spec fn src_of(d: int, sz: int) -> int { (d - 1) % sz + 1 }
pub open spec fn sheet_of(d: int, sz: int) -> int { (d - src_of(d, sz)) / sz }

pub proof fn lemma_sheet(d: int, sz: int, n: int)
    requires sz >= 1, n >= 0, 1 <= d <= n * sz
    ensures 1 <= src_of(d, sz) <= sz, 0 <= sheet_of(d, sz) < n, d == sz * sheet_of(d, sz) + src_of(d, sz)
{
    let q = (d - 1) / sz;
    let r = (d - 1) % sz;
    lemma_fundamental_div_mod(d - 1, sz);
    lemma_mod_bound(d - 1, sz);
    assert(d - src_of(d, sz) == sz * q);
    lemma_div_multiples_vanish(q, sz);
    assert(sz * q == q * sz) by(nonlinear_arith);
    assert(sheet_of(d, sz) == q);
    assert(q >= 0) by(nonlinear_arith) requires d - 1 == sz * q + r, 0 <= r < sz, sz >= 1, d >= 1;
    assert(q < n) by(nonlinear_arith) requires d - 1 == sz * q + r, 0 <= r < sz, sz >= 1, d <= n * sz;
}

pub proof fn lemma_compose(k: int, c: int, sz: int)
    requires sz >= 1, k >= 0, 1 <= c <= sz
    ensures src_of(sz * k + c, sz) == c, sheet_of(sz * k + c, sz) == k
{
    let d = sz * k + c;
    assert(d - 1 == k * sz + (c - 1)) by(nonlinear_arith) requires d == sz * k + c;
    lemma_fundamental_div_mod_converse(d - 1, sz, k, c - 1);
    assert(d - src_of(d, sz) == k * sz) by(nonlinear_arith) requires d == sz * k + c, src_of(d, sz) == c;
    lemma_div_multiples_vanish(k, sz);
}


pub open spec fn sm_ens<F: Fn(usize, usize, usize) -> usize>(sm: &F, k: usize, i: usize, c: usize, r: usize) -> bool {
    sm.ensures((k, i, c), r)
}
pub open spec fn sm_req<F: Fn(usize, usize, usize) -> usize>(sm: &F, k: usize, i: usize, c: usize) -> bool {
    sm.requires((k, i, c))
}
// requirements on the sheet map, as relations on the closure's ensures
pub open spec fn sm_callable<T: DSym, F: Fn(usize, usize, usize) -> usize>(ds: &T, sm: &F, n: int) -> bool {
    forall|k: usize, i: usize, c: usize| k < n && i <= ds.sdim() && 1 <= c <= ds.ssize() ==> #[trigger] sm.requires((k, i, c))
}
pub open spec fn sm_functional<T: DSym, F: Fn(usize, usize, usize) -> usize>(ds: &T, sm: &F, n: int) -> bool {
    forall|k: usize, i: usize, c: usize, a: usize, b: usize| #![trigger sm_ens(sm, k, i, c, a), sm_ens(sm, k, i, c, b)]
        k < n && i <= ds.sdim() && 1 <= c <= ds.ssize() && sm_ens(sm, k, i, c, a) && sm_ens(sm, k, i, c, b) ==> a == b && a < n
}
pub open spec fn sm_involutive<T: DSym, F: Fn(usize, usize, usize) -> usize>(ds: &T, sm: &F, n: int) -> bool {
    forall|k: usize, i: usize, c: usize, k2: usize, k3: usize| #![trigger sm_ens(sm, k, i, c, k2), sm_ens(sm, k2, i, ds.sop(i as int, c as int) as usize, k3)]
        k < n && i <= ds.sdim() && 1 <= c <= ds.ssize() && sm_ens(sm, k, i, c, k2)
            && sm_ens(sm, k2, i, ds.sop(i as int, c as int) as usize, k3) ==> k3 == k
}
pub open spec fn sm_injective<T: DSym, F: Fn(usize, usize, usize) -> usize>(ds: &T, sm: &F, n: int) -> bool {
    forall|ka: usize, kb: usize, i: usize, c: usize, k2: usize| #![trigger sm_ens(sm, ka, i, c, k2), sm_ens(sm, kb, i, c, k2)]
        ka < n && kb < n && i <= ds.sdim() && 1 <= c <= ds.ssize() && sm_ens(sm, ka, i, c, k2) && sm_ens(sm, kb, i, c, k2) ==> ka == kb
}

// what the closure `op` of cover() computes, as a relation
pub open spec fn cover_rel<T: DSym, F: Fn(usize, usize, usize) -> usize>(ds: &T, sm: &F, i: usize, d: usize, r: Option<usize>) -> bool {
    let sz = ds.ssize();
    let c = src_of(d as int, sz);
    let k = sheet_of(d as int, sz);
    exists|k2: usize| #[trigger] sm_ens(sm, k as usize, i, c as usize, k2) && r == Some((sz * k2 + ds.sop(i as int, c)) as usize)
}

// the set-building half of the real `cover` (derived.rs:106-117); build_sym_using_ms only adds degrees
pub fn cover_set<T, F>(ds: &T, nr_sheets: usize, sheet_map: F) -> (r: PartialDSet)
    where
        T: DSym,
        F: Fn(usize, usize, usize) -> usize
    requires ds.wf(), nr_sheets >= 1, nr_sheets * ds.ssize() * (ds.sdim() + 1) <= usize::MAX, nr_sheets * ds.ssize() < usize::MAX,
        sm_callable(ds, &sheet_map, nr_sheets as int), sm_functional(ds, &sheet_map, nr_sheets as int), sm_involutive(ds, &sheet_map, nr_sheets as int), sm_injective(ds, &sheet_map, nr_sheets as int),
    ensures r.wf(), r.size == nr_sheets * ds.ssize(), r.dim == ds.sdim(),
        // every entry is defined (complete) and projects onto the base operation: the covering property
        forall|i: usize, d: usize| i <= ds.sdim() && 1 <= d <= nr_sheets * ds.ssize() ==> {
            let e = #[trigger] r.sop(i as int, d as int);
            1 <= e <= nr_sheets * ds.ssize() && src_of(e, ds.ssize()) == ds.sop(i as int, src_of(d as int, ds.ssize()))
        },
{
    proof { ds.lemma_wf(); }
    let sz = ds.size();
    let ghost n = nr_sheets as int;
    let src = |d: usize| -> (c: usize) requires d >= 1, sz >= 1 ensures c == src_of(d as int, sz as int) { (d - 1) % sz + 1 };
    let op = |i: usize, d: usize| -> (r: Option<usize>)
        requires i <= ds.sdim(), 1 <= d <= n * sz, ds.wf(), sz == ds.ssize(), n >= 1, n * sz < usize::MAX,
            sm_callable(ds, &sheet_map, n), sm_functional(ds, &sheet_map, n),
            forall|x: usize| x >= 1 ==> #[trigger] src.requires((x,)),
            forall|x: usize, y: usize| #[trigger] src.ensures((x,), y) ==> y == src_of(x as int, sz as int),
        ensures cover_rel(ds, &sheet_map, i, d, r)
        {
            proof { ds.lemma_wf(); lemma_sheet(d as int, sz as int, n); }
            ds.op(i, src(d))
                .map(|di: usize| -> (e: usize)
                    requires 1 <= di <= sz, di == ds.sop(i as int, src_of(d as int, sz as int)), i <= ds.sdim(), 1 <= d <= n * sz, sz == ds.ssize(), sz >= 1, n * sz < usize::MAX,
                        sm_callable(ds, &sheet_map, n), sm_functional(ds, &sheet_map, n),
                        forall|x: usize| x >= 1 ==> #[trigger] src.requires((x,)),
                        forall|x: usize, y: usize| #[trigger] src.ensures((x,), y) ==> y == src_of(x as int, sz as int),
                    ensures exists|k2: usize| #[trigger] sm_ens(&sheet_map, sheet_of(d as int, sz as int) as usize, i, src_of(d as int, sz as int) as usize, k2)
                                && e == sz * k2 + di
                    {
                        proof { lemma_sheet(d as int, sz as int, n); }
                        let k2 = sheet_map((d - src(d)) / sz, i, src(d));
                        proof {
                            assert(sm_ens(&sheet_map, sheet_of(d as int, sz as int) as usize, i, src_of(d as int, sz as int) as usize, k2));
                            assert(k2 < n);
                            assert(sz * k2 + di <= n * sz) by(nonlinear_arith) requires k2 < n, 1 <= di <= sz, sz >= 1;
                        }
                        sz * k2 + di
                    })
        };

    proof {
        assert(deterministic(op, (nr_sheets * sz) as usize, ds.sdim() as usize)) by {
            assert forall|i: usize, d: usize, r1: Option<usize>, r2: Option<usize>|
                #![trigger op.ensures((i, d), r1), op.ensures((i, d), r2)]
                i <= ds.sdim() && 1 <= d <= n * sz && op.ensures((i, d), r1) && op.ensures((i, d), r2) implies r1 == r2 by {
                lemma_sheet(d as int, sz as int, n);
            }
        }
        assert(consistent(op, (nr_sheets * sz) as usize, ds.sdim() as usize)) by {
            assert forall|i: usize, d: usize, e: usize| #![trigger op.ensures((i, d), Some(e))]
                i <= ds.sdim() && 1 <= d <= n * sz && op.ensures((i, d), Some(e)) implies 1 <= e <= n * sz by {
                lemma_sheet(d as int, sz as int, n);
                let c = src_of(d as int, sz as int);
                let k = sheet_of(d as int, sz as int);
                let di = ds.sop(i as int, c);
                let k2 = choose|k2: usize| #[trigger] sm_ens(&sheet_map, k as usize, i, c as usize, k2) && Some(e) == Some((sz * k2 + di) as usize);
                assert(k2 < n);
                assert(sz * k2 + di <= n * sz) by(nonlinear_arith) requires k2 < n, 1 <= di <= sz, sz >= 1;
            }
            assert forall|i: usize, d: usize, e: usize, r: Option<usize>| #![trigger op.ensures((i, d), Some(e)), op.ensures((i, e), r)]
                i <= ds.sdim() && 1 <= d <= n * sz && op.ensures((i, d), Some(e)) && op.ensures((i, e), r) implies r == Some(d) by {
                lemma_sheet(d as int, sz as int, n);
                let c = src_of(d as int, sz as int);
                let k = sheet_of(d as int, sz as int);
                let di = ds.sop(i as int, c);
                let k2 = choose|k2: usize| #[trigger] sm_ens(&sheet_map, k as usize, i, c as usize, k2) && Some(e) == Some((sz * k2 + di) as usize);
                assert(k2 < n);
                assert(sz * k2 + di <= n * sz) by(nonlinear_arith) requires k2 < n, 1 <= di <= sz, sz >= 1;
                lemma_compose(k2 as int, di, sz as int);
                assert(e == sz * k2 + di);
                // unfold the second fact at (i, e)
                let k3 = choose|k3: usize| #[trigger] sm_ens(&sheet_map, sheet_of(e as int, sz as int) as usize, i, src_of(e as int, sz as int) as usize, k3)
                            && r == Some((sz * k3 + ds.sop(i as int, src_of(e as int, sz as int))) as usize);
                assert(sm_ens(&sheet_map, k2, i, di as usize, k3));
                assert(ds.sop(i as int, c) == di);
                assert(k3 == k);
                assert(ds.sop(i as int, di) == c);
            }
            assert forall|i: usize, a: usize, b: usize, e: usize| #![trigger op.ensures((i, a), Some(e)), op.ensures((i, b), Some(e))]
                i <= ds.sdim() && 1 <= a <= n * sz && 1 <= b <= n * sz && op.ensures((i, a), Some(e)) && op.ensures((i, b), Some(e)) implies a == b by {
                lemma_sheet(a as int, sz as int, n);
                lemma_sheet(b as int, sz as int, n);
                let ca = src_of(a as int, sz as int); let ka = sheet_of(a as int, sz as int); let da = ds.sop(i as int, ca);
                let cb = src_of(b as int, sz as int); let kb = sheet_of(b as int, sz as int); let db = ds.sop(i as int, cb);
                let k2a = choose|k2: usize| #[trigger] sm_ens(&sheet_map, ka as usize, i, ca as usize, k2) && Some(e) == Some((sz * k2 + da) as usize);
                let k2b = choose|k2: usize| #[trigger] sm_ens(&sheet_map, kb as usize, i, cb as usize, k2) && Some(e) == Some((sz * k2 + db) as usize);
                assert(k2a < n && k2b < n);
                assert(sz * k2a + da <= n * sz) by(nonlinear_arith) requires k2a < n, 1 <= da <= sz, sz >= 1;
                assert(sz * k2b + db <= n * sz) by(nonlinear_arith) requires k2b < n, 1 <= db <= sz, sz >= 1;
                lemma_compose(k2a as int, da, sz as int);
                lemma_compose(k2b as int, db, sz as int);
                assert(k2a == k2b && da == db);
                assert(ds.sop(i as int, da) == ca && ds.sop(i as int, db) == cb);
                assert(ca == cb);
                assert(ka == kb);
            }
        }
    }
    proof {
        assert(nr_sheets * sz >= 1) by(nonlinear_arith) requires nr_sheets >= 1, sz >= 1;
    }
    let r = build_set(nr_sheets * sz, ds.dim(), op);
    proof {
        assert forall|i: usize, d: usize| i <= ds.sdim() && 1 <= d <= nr_sheets * ds.ssize() implies ({
            let e = #[trigger] r.sop(i as int, d as int);
            1 <= e <= nr_sheets * ds.ssize() && src_of(e, ds.ssize()) == ds.sop(i as int, src_of(d as int, ds.ssize()))
        }) by {
            lemma_sheet(d as int, sz as int, n);
            assert(op.ensures((i, d), r.view_op(i as int, d as int)));
            let c = src_of(d as int, sz as int);
            let k = sheet_of(d as int, sz as int);
            let di = ds.sop(i as int, c);
            assert(cover_rel(ds, &sheet_map, i, d, r.view_op(i as int, d as int)));
            let k2 = choose|k2: usize| #[trigger] sm_ens(&sheet_map, k as usize, i, c as usize, k2) && r.view_op(i as int, d as int) == Some((sz * k2 + di) as usize);
            assert(k2 < n);
            assert(sz * k2 + di <= n * sz) by(nonlinear_arith) requires k2 < n, 1 <= di <= sz, sz >= 1;
            lemma_compose(k2 as int, di, sz as int);
            assert(r.sop(i as int, d as int) != 0);
            assert(r.sop(i as int, d as int) as usize == (sz * k2 + di) as usize);
        }
    }
    r
}

}
fn main() {}
