use vstd::prelude::*;
verus! {

pub trait DSet: Sized {
    spec fn wf(&self) -> bool;
    spec fn ssize(&self) -> int;
    spec fn sdim(&self) -> int;
    spec fn spec_op(&self, i: int, d: int) -> Option<usize>;
    spec fn spec_m(&self, i: int, j: int, d: int) -> Option<usize>;

    fn size(&self) -> (r: usize) requires self.wf() ensures r == self.ssize();
    fn dim(&self) -> (r: usize) requires self.wf() ensures r == self.sdim();
    fn op(&self, i: usize, d: usize) -> (r: Option<usize>) requires self.wf() ensures r == self.spec_op(i as int, d as int);

    // real default body (dsets.rs:62); types that override it must meet the same contract
    fn m(&self, i: usize, j: usize, d: usize) -> (r: Option<usize>)
        requires self.wf()
        ensures r == self.spec_m(i as int, j as int, d as int)
    ;

    // real default body (dsets.rs:201), closure contract injected
    fn degrees_match(&self, d: usize, e: usize) -> (b: bool)
        requires self.wf(), self.sdim() < usize::MAX
        ensures b == (forall|i: int| 0 <= i < self.sdim() ==> #[trigger] self.spec_m(i, i + 1, d as int) == self.spec_m(i, i + 1, e as int))
    {
        let b = (0..self.dim()).all(|i: usize| -> (c: bool)
            requires i < self.sdim(), self.wf(), self.sdim() < usize::MAX
            ensures c == (self.spec_m(i as int, i + 1, d as int) == self.spec_m(i as int, i + 1, e as int))
            { self.m(i, i + 1, d) == self.m(i, i + 1, e) });
        proof {
            if b {
                assert forall|i: int| 0 <= i < self.sdim() implies #[trigger] self.spec_m(i, i + 1, d as int) == self.spec_m(i, i + 1, e as int) by {
                    let rg = 0..(self.sdim() as usize);
                    assert(vstd::std_specs::iter::IteratorSpec::remaining(&rg)[i] == i);
                }
            }
        }
        b
    }
}

pub struct PlainSet { pub size: usize, pub dim: usize }

// default `m` of the trait, as a free helper so that impls without an override can delegate (what Rust does implicitly)
pub open spec fn default_m(dim: int, size: int, i: int, j: int, d: int) -> Option<usize> {
    if i > dim || j > dim || d < 1 || d > size { None }
    else if j == i { Some(1usize) }
    else if i == j + 1 || j == i + 1 { Some(0usize) }
    else { Some(2usize) }
}

impl DSet for PlainSet {
    open spec fn wf(&self) -> bool { self.size >= 1 && self.dim >= 1 && self.dim < usize::MAX }
    open spec fn ssize(&self) -> int { self.size as int }
    open spec fn sdim(&self) -> int { self.dim as int }
    open spec fn spec_op(&self, i: int, d: int) -> Option<usize> { None }
    open spec fn spec_m(&self, i: int, j: int, d: int) -> Option<usize> { default_m(self.dim as int, self.size as int, i, j, d) }
    fn size(&self) -> usize { self.size }
    fn dim(&self) -> usize { self.dim }
    fn op(&self, i: usize, d: usize) -> Option<usize> { None }
    // the trait's default body, verbatim
    fn m(&self, i: usize, j: usize, d: usize) -> Option<usize> {
        if i > self.dim() || j > self.dim() || d < 1 || d > self.size() {
            None
        } else if j == i {
            Some(1)
        } else if i == j + 1 || j == i + 1 {
            Some(0)
        } else {
            Some(2)
        }
    }
}

}
fn main() {}
