#![feature(panic_internals)]
#![feature(sized_hierarchy)]
use vstd::prelude::*;
verus! {
#[verifier::external_type_specification]
pub struct ExAssertKind(core::panicking::AssertKind);

pub assume_specification<T, U> [core::panicking::assert_failed] (_0: core::panicking::AssertKind, _1: &T, _2: &U, _3: std::option::Option<std::fmt::Arguments<'_>>) -> !
    where
    T: std::marker::MetaSized + std::fmt::Debug + ?Sized,
    U: std::marker::MetaSized + std::fmt::Debug + ?Sized,
    requires false;

struct PartialDSet {
    size: usize,
    dim: usize,
    op: Vec<usize>,
}

spec fn sidx(dim: int, i: int, d: int) -> int { (d - 1) * (dim + 1) + i }

proof fn lemma_idx_bound(size: int, dim: int, i: int, d: int)
    requires 0 <= i <= dim, 1 <= d <= size,
    ensures 0 <= sidx(dim, i, d) < size * (dim + 1), dim + 1 <= size * (dim + 1), 0 <= (d - 1) * (dim + 1) <= sidx(dim, i, d)
{
    assert((d - 1) * (dim + 1) + i < size * (dim + 1)) by(nonlinear_arith)
        requires 0 <= i <= dim, 1 <= d <= size;
    assert(0 <= (d - 1) * (dim + 1)) by(nonlinear_arith)
        requires 0 <= dim, 1 <= d;
    assert(dim + 1 <= size * (dim + 1)) by(nonlinear_arith)
        requires 0 <= dim, 1 <= size;
}

proof fn lemma_idx_inj(dim: int, i: int, d: int, j: int, e: int)
    requires 0 <= i <= dim, 0 <= j <= dim, 1 <= d, 1 <= e, sidx(dim, i, d) == sidx(dim, j, e)
    ensures i == j, d == e
{
    assert(d == e) by(nonlinear_arith)
        requires 0 <= i <= dim, 0 <= j <= dim, 1 <= d, 1 <= e, (d - 1) * (dim + 1) + i == (e - 1) * (dim + 1) + j;
}

impl PartialDSet {
    #[verifier::opaque]
    spec fn sop(&self, i: int, d: int) -> int {
        self.op@[sidx(self.dim as int, i, d)] as int
    }

    spec fn wf(&self) -> bool {
        &&& self.size >= 1
        &&& self.dim >= 1
        &&& self.op@.len() == self.size * (self.dim + 1)
        &&& self.op@.len() <= usize::MAX
        &&& forall|i: int, d: int| 0 <= i <= self.dim && 1 <= d <= self.size ==> {
                let e = #[trigger] self.sop(i, d);
                e == 0 || (1 <= e <= self.size && self.sop(i, e) == d)
            }
    }

    fn idx(&self, i: usize, d: usize) -> (r: usize)
        requires self.wf(), i <= self.dim, 1 <= d <= self.size,
        ensures r == sidx(self.dim as int, i as int, d as int), r < self.op@.len(),
    {
        proof { lemma_idx_bound(self.size as int, self.dim as int, i as int, d as int); }
        (d - 1) * (self.dim + 1) + i
    }

    fn op_unchecked(&self, i: usize, d: usize) -> (r: usize)
        requires self.wf(), i <= self.dim, 1 <= d <= self.size,
        ensures r == self.sop(i as int, d as int)
    {
        proof { reveal(PartialDSet::sop); }
        self.op[self.idx(i, d)]
    }

    fn set(&mut self, i: usize, d: usize, e: usize)
        requires old(self).wf(),
            i <= old(self).dim, 1 <= d <= old(self).size, 1 <= e <= old(self).size,
            old(self).sop(i as int, d as int) == 0 || old(self).sop(i as int, d as int) == e,
            old(self).sop(i as int, e as int) == 0 || old(self).sop(i as int, e as int) == d,
        ensures final(self).wf(), final(self).size == old(self).size, final(self).dim == old(self).dim,
            final(self).sop(i as int, d as int) == e,
            final(self).sop(i as int, e as int) == d,
            forall|j: int, c: int| 0 <= j <= old(self).dim && 1 <= c <= old(self).size && !(j == i && (c == d || c == e))
                ==> final(self).sop(j, c) == old(self).sop(j, c),
    {
        proof { reveal(PartialDSet::sop); }
        assert!(i <= self.dim);
        assert!(1 <= d && d <= self.size);
        assert!(1 <= e && e <= self.size);

        let di = self.op_unchecked(i, d);
        let ei = self.op_unchecked(i, e);

        if di != 0 {
            assert_eq!(di, e);
        }
        if ei != 0 {
            assert_eq!(ei, d);
        }

        let kd = self.idx(i, d);
        let ke = self.idx(i, e);

        self.op[kd] = e;
        self.op[ke] = d;

        proof {
            let dim = self.dim as int;
            assert forall|j: int, c: int| 0 <= j <= self.dim && 1 <= c <= self.size implies
                (sidx(dim, j, c) == kd <==> (j == i && c == d)) && (sidx(dim, j, c) == ke <==> (j == i && c == e)) by {
                if sidx(dim, j, c) == kd { lemma_idx_inj(dim, j, c, i as int, d as int); }
                if sidx(dim, j, c) == ke { lemma_idx_inj(dim, j, c, i as int, e as int); }
            }
            assert forall|j: int, c: int| 0 <= j <= self.dim && 1 <= c <= self.size implies ({
                let x = #[trigger] self.sop(j, c);
                x == 0 || (1 <= x <= self.size && self.sop(j, x) == c)
            }) by {
                lemma_idx_bound(self.size as int, dim, j, c);
                let x0 = old(self).sop(j, c);
                if x0 != 0 { lemma_idx_bound(self.size as int, dim, j, x0); }
            }
        }
    }
}


impl PartialDSet {
    fn new(size: usize, dim: usize) -> (r: PartialDSet)
        requires size >= 1, dim >= 1, size * (dim + 1) <= usize::MAX
        ensures r.wf(), r.size == size, r.dim == dim,
            forall|i: int, d: int| 0 <= i <= dim && 1 <= d <= size ==> #[trigger] r.sop(i, d) == 0,
    {
        assert!(size >= 1);
        assert!(dim >= 1);
        proof {
            assert(dim + 1 <= size * (dim + 1)) by(nonlinear_arith) requires size >= 1, dim >= 1;
        }
        let op = vec![0; size * (dim + 1)];
        let r = PartialDSet { size, dim, op };
        proof {
            reveal(PartialDSet::sop);
            assert forall|i: int, d: int| 0 <= i <= dim && 1 <= d <= size implies #[trigger] r.sop(i, d) == 0 by {
                lemma_idx_bound(size as int, dim as int, i, d);
            }
        }
        r
    }
    fn size(&self) -> (r: usize) ensures r == self.size { self.size }
    fn dim(&self) -> (r: usize) ensures r == self.dim { self.dim }

    spec fn view_op(&self, i: int, d: int) -> Option<usize> {
        if self.sop(i, d) == 0 { None } else { Some(self.sop(i, d) as usize) }
    }
}

// closure `ensures` is one-directional (f.ensures(args, r) ==> clause), so every condition is stated
// with `ensures` facts only on the left of the implication
spec fn deterministic<F: Fn(usize, usize) -> Option<usize>>(op: F, size: usize, dim: usize) -> bool {
    forall|i: usize, d: usize, r1: Option<usize>, r2: Option<usize>|
        #![trigger op.ensures((i, d), r1), op.ensures((i, d), r2)]
        i <= dim && 1 <= d <= size && op.ensures((i, d), r1) && op.ensures((i, d), r2) ==> r1 == r2
}

spec fn consistent<F: Fn(usize, usize) -> Option<usize>>(op: F, size: usize, dim: usize) -> bool {
    &&& forall|i: usize, d: usize, e: usize| #![trigger op.ensures((i, d), Some(e))]
            i <= dim && 1 <= d <= size && op.ensures((i, d), Some(e)) ==> 1 <= e <= size
    &&& forall|i: usize, d: usize, e: usize, r: Option<usize>| #![trigger op.ensures((i, d), Some(e)), op.ensures((i, e), r)]
            i <= dim && 1 <= d <= size && op.ensures((i, d), Some(e)) && op.ensures((i, e), r) ==> r == Some(d)
    &&& forall|i: usize, a: usize, b: usize, e: usize| #![trigger op.ensures((i, a), Some(e)), op.ensures((i, b), Some(e))]
            i <= dim && 1 <= a <= size && 1 <= b <= size && op.ensures((i, a), Some(e)) && op.ensures((i, b), Some(e)) ==> a == b
}

// an entry of the table is justified by an actual call at that chamber or at its partner
spec fn justified<F: Fn(usize, usize) -> Option<usize>>(op: F, i: usize, c: usize, x: usize) -> bool {
    op.ensures((i, c), Some(x)) || op.ensures((i, x), Some(c))
}

fn build_set<F>(size: usize, dim: usize, op: F) -> (dset: PartialDSet)
    where F: Fn(usize, usize) -> Option<usize>
    requires size >= 1, dim >= 1, size * (dim + 1) <= usize::MAX, size < usize::MAX, dim < usize::MAX,
        forall|i: usize, d: usize| i <= dim && 1 <= d <= size ==> op.requires((i, d)),
        deterministic(op, size, dim), consistent(op, size, dim),
    ensures dset.wf(), dset.size == size, dset.dim == dim,
        forall|i: usize, d: usize| i <= dim && 1 <= d <= size ==> op.ensures((i, d), #[trigger] dset.view_op(i as int, d as int)),
{
    let mut dset = PartialDSet::new(size, dim);
    for i in it: 0..(dset.dim()) + 1
        invariant
            it.seq().len() == dim + 1,
            dset.wf(), dset.size == size, dset.dim == dim, dim < usize::MAX, size < usize::MAX,
            forall|i: usize, d: usize| i <= dim && 1 <= d <= size ==> op.requires((i, d)),
            deterministic(op, size, dim), consistent(op, size, dim),
            forall|j: usize, d: usize| j < i && 1 <= d <= size ==> op.ensures((j, d), #[trigger] dset.view_op(j as int, d as int)),
            forall|j: int, d: int| i <= j <= dim && 1 <= d <= size ==> #[trigger] dset.sop(j, d) == 0,
    {
        for d in it2: 1..(dset.size()) + 1
            invariant
                it2.seq().len() == size,
                dset.wf(), dset.size == size, dset.dim == dim, dim < usize::MAX, size < usize::MAX, i <= dim,
                forall|i: usize, d: usize| i <= dim && 1 <= d <= size ==> op.requires((i, d)),
                deterministic(op, size, dim), consistent(op, size, dim),
                forall|j: usize, c: usize| j < i && 1 <= c <= size ==> op.ensures((j, c), #[trigger] dset.view_op(j as int, c as int)),
                forall|j: int, c: int| i < j <= dim && 1 <= c <= size ==> #[trigger] dset.sop(j, c) == 0,
                forall|c: usize| 1 <= c < d ==> op.ensures((i, c), #[trigger] dset.view_op(i as int, c as int)),
                forall|c: usize| 1 <= c <= size && #[trigger] dset.sop(i as int, c as int) != 0 ==> justified(op, i, c, dset.sop(i as int, c as int) as usize),
        {
            let ghost old_dset = dset;
            let ghost x0 = dset.sop(i as int, d as int);
            if let Some(di) = op(i, d) {
                proof {
                    assert(op.ensures((i, d), Some(di)));
                    assert(1 <= di <= size);
                    if x0 != 0 {
                        // already set: by an earlier call at d (impossible order) or at the partner x0
                        assert(justified(op, i, d, x0 as usize));
                        if op.ensures((i, d), Some(x0 as usize)) { } else { assert(op.ensures((i, x0 as usize), Some(d))); }
                        assert(x0 == di);
                    }
                    let y0 = dset.sop(i as int, di as int);
                    if y0 != 0 {
                        assert(justified(op, i, di, y0 as usize));
                        if op.ensures((i, di), Some(y0 as usize)) {
                            // consistent: ensures((i,d),Some(di)) && ensures((i,di), r) ==> r == Some(d)
                        } else {
                            assert(op.ensures((i, y0 as usize), Some(di)));
                            // wf: sop(i, y0) == di ; and entry (i, y0) = di is paired with d?  use involution of the table
                            assert(dset.sop(i as int, y0) == di);
                        }
                        assert(y0 == d);
                    }
                }
                dset.set(i, d, di);
                proof {
                    assert forall|j: usize, c: usize| j < i && 1 <= c <= size implies op.ensures((j, c), #[trigger] dset.view_op(j as int, c as int)) by {
                        assert(dset.sop(j as int, c as int) == old_dset.sop(j as int, c as int));
                        assert(op.ensures((j, c), old_dset.view_op(j as int, c as int)));
                    }
                    assert forall|c: usize| 1 <= c <= size && #[trigger] dset.sop(i as int, c as int) != 0 implies justified(op, i, c, dset.sop(i as int, c as int) as usize) by {
                        if c != d && c != di { assert(dset.sop(i as int, c as int) == old_dset.sop(i as int, c as int)); }
                    }
                    assert forall|c: usize| 1 <= c < d + 1 implies op.ensures((i, c), #[trigger] dset.view_op(i as int, c as int)) by {
                        if c == d { }
                        else if c == di {
                            // c < d was processed: its actual result was view_op = Some(old entry) = Some(d) now unchanged
                            assert(op.ensures((i, c), old_dset.view_op(i as int, c as int)));
                            assert(old_dset.sop(i as int, c as int) == 0 || old_dset.sop(i as int, c as int) == d);
                            if old_dset.sop(i as int, c as int) == 0 {
                                // c returned None earlier, but d now maps to c: contradiction with consistent
                                assert(op.ensures((i, c), None));
                            }
                        }
                        else {
                            assert(dset.sop(i as int, c as int) == old_dset.sop(i as int, c as int));
                            assert(op.ensures((i, c), old_dset.view_op(i as int, c as int)));
                        }
                    }
                }
            } else {
                proof {
                    assert(op.ensures((i, d), None));
                    if x0 != 0 {
                        assert(justified(op, i, d, x0 as usize));
                        if op.ensures((i, d), Some(x0 as usize)) { } else { assert(op.ensures((i, x0 as usize), Some(d))); }
                        assert(false);
                    }
                    assert forall|c: usize| 1 <= c < d + 1 implies op.ensures((i, c), #[trigger] dset.view_op(i as int, c as int)) by { }
                }
            }
        }
    }
    dset
}

} // verus!
fn main() {}
