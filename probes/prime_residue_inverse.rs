#![feature(panic_internals)]
#![feature(sized_hierarchy)]
use vstd::prelude::*;
use vstd::arithmetic::div_mod::*;
use std::ops::{Add, Mul, Neg, Sub, Div};
verus! {
#[verifier::external_type_specification]
pub struct ExAssertKind(core::panicking::AssertKind);

pub assume_specification<T, U> [core::panicking::assert_failed] (_0: core::panicking::AssertKind, _1: &T, _2: &U, _3: std::option::Option<std::fmt::Arguments<'_>>) -> !
    where
    T: std::marker::MetaSized + std::fmt::Debug + ?Sized,
    U: std::marker::MetaSized + std::fmt::Debug + ?Sized,
    requires false;

#[derive(Copy, Clone, Debug, PartialEq, Eq)]
pub struct PrimeResidueClass<const P: i64> {
    value: i64
}

pub open spec fn valid_p(p: int) -> bool { 2 <= p <= 3037000499 }

#[verifier::external_body]
proof fn domain_valid_p<const P: i64>() ensures valid_p(P as int) {}

impl<const P: i64> PrimeResidueClass<P> {
    #[verifier::type_invariant]
    spec fn inv(self) -> bool { 0 <= self.value < P }

    pub closed spec fn val(self) -> int { self.value as int }
}

// Rust's truncated remainder (vstd::arithmetic::div_mod::rust_rem) vs Euclidean remainder
proof fn lemma_trunc_mod(n: int, p: int)
    requires p > 0
    ensures ({
        let t = rust_rem(n, p);
        (if t < 0 { t + p } else { t }) == n % p
    })
{
    if n == 0 {
        lemma_small_mod(0, p as nat);
    } else if n < 0 {
        let m = -n;
        lemma_fundamental_div_mod(m, p);
        lemma_mod_bound(m, p);
        if m % p == 0 {
            let q = -(m / p);
            assert(n == q * p + 0) by(nonlinear_arith) requires m == p * (m / p) + m % p, m % p == 0, n == -m, q == -(m / p);
            lemma_fundamental_div_mod_converse(n, p, q, 0);
        } else {
            let q = -(m / p) - 1;
            let r = p - m % p;
            assert(n == q * p + r) by(nonlinear_arith) requires m == p * (m / p) + m % p, n == -m, q == -(m / p) - 1, r == p - m % p;
            lemma_fundamental_div_mod_converse(n, p, q, r);
        }
    }
}

impl<const P: i64> vstd::std_specs::convert::FromSpecImpl<i64> for PrimeResidueClass<P> {
    open spec fn obeys_from_spec() -> bool { false }
    open spec fn from_spec(n: i64) -> Self { arbitrary() }
}

impl<const P: i64> From<i64> for PrimeResidueClass<P> {
    fn from(n: i64) -> (r: Self)
        ensures r.val() == (n as int) % (P as int)
    {
        proof { domain_valid_p::<P>(); lemma_trunc_mod(n as int, P as int); }
        let r = n % P;
        PrimeResidueClass {
            value: if r < 0 { r + P } else { r }
        }
    }
}

impl<const P: i64> vstd::std_specs::ops::AddSpecImpl<PrimeResidueClass<P>> for PrimeResidueClass<P> {
    open spec fn obeys_add_spec() -> bool { false }
    open spec fn add_req(self, rhs: PrimeResidueClass<P>) -> bool { true }
    open spec fn add_spec(self, rhs: PrimeResidueClass<P>) -> Self { arbitrary() }
}

impl<const P: i64> Add<PrimeResidueClass<P>> for PrimeResidueClass<P> {
    type Output = Self;

    fn add(self, rhs: PrimeResidueClass<P>) -> (r: Self::Output)
        ensures r.val() == (self.val() + rhs.val()) % (P as int)
    {
        proof { domain_valid_p::<P>(); use_type_invariant(self); use_type_invariant(rhs); }
        (self.value + rhs.value).into()
    }
}

impl<const P: i64> vstd::std_specs::ops::MulSpecImpl<PrimeResidueClass<P>> for PrimeResidueClass<P> {
    open spec fn obeys_mul_spec() -> bool { false }
    open spec fn mul_req(self, rhs: PrimeResidueClass<P>) -> bool { true }
    open spec fn mul_spec(self, rhs: PrimeResidueClass<P>) -> Self { arbitrary() }
}

impl<const P: i64> Mul<PrimeResidueClass<P>> for PrimeResidueClass<P> {
    type Output = PrimeResidueClass<P>;

    fn mul(self, rhs: PrimeResidueClass<P>) -> (r: Self::Output)
        ensures r.val() == (self.val() * rhs.val()) % (P as int)
    {
        proof {
            domain_valid_p::<P>(); use_type_invariant(self); use_type_invariant(rhs);
            assert(0 <= self.value * rhs.value <= 3037000498 * 3037000498) by(nonlinear_arith)
                requires 0 <= self.value <= 3037000498, 0 <= rhs.value <= 3037000498;
        }
        (self.value * rhs.value).into()
    }
}

impl<const P: i64> vstd::std_specs::ops::NegSpecImpl for PrimeResidueClass<P> {
    open spec fn obeys_neg_spec() -> bool { false }
    open spec fn neg_req(self) -> bool { true }
    open spec fn neg_spec(self) -> Self { arbitrary() }
}

impl<const P: i64> Neg for PrimeResidueClass<P> {
    type Output = PrimeResidueClass<P>;

    fn neg(self) -> (r: Self::Output)
        ensures r.val() == (-self.val()) % (P as int)
    {
        proof { domain_valid_p::<P>(); use_type_invariant(self); }
        (-self.value).into()
    }
}


pub open spec fn is_prime(p: int) -> bool { p >= 2 && forall|d: int| 1 < d < p ==> #[trigger] (p % d) != 0 }

impl<const P: i64> PrimeResidueClass<P> {
    // real body (prime_residue_classes.rs:245) with R1 on the two destructuring assignments
    #[verifier::exec_allows_no_decreases_clause]
    fn inverse(self) -> (res: Self)
        requires self.val() != 0, is_prime(P as int)
        ensures (res.val() * self.val()) % (P as int) == 1
    {
        proof { domain_valid_p::<P>(); use_type_invariant(self); }
        let ghost v = self.value as int;
        let ghost p = P as int;
        let (mut t, mut t1): (i64, i64) = (0, 1);
        let (mut r, mut r1) = (P, self.value);
        let ghost mut sg: int = 1;      // sign bookkeeping: sg*t1 >= 0, sg*t <= 0
        let ghost mut a: int = 1;       // r  == a*p  + t*v
        let ghost mut a1: int = 0;      // r1 == a1*p + t1*v

        while r1 != 0
            invariant
                p == P, v == self.value, valid_p(p), 0 < v < p,
                sg == 1 || sg == -1,
                sg * t1 >= 0, sg * t <= 0,
                t1 * r - t * r1 == sg * p,
                0 <= r1 < r <= p,
                r == p ==> r1 == v,
                r == a * p + t * v,
                r1 == a1 * p + t1 * v,
        {
            proof {
                // |t1| * r <= p  and  |t| * r1 <= p
                assert(sg * t1 * r <= p && -(sg * t) * r1 <= p && sg * t1 * r >= 0 && -(sg * t) * r1 >= 0) by(nonlinear_arith)
                    requires sg * t1 >= 0, sg * t <= 0, t1 * r - t * r1 == sg * p, sg == 1 || sg == -1, r >= 1, r1 >= 0;
                assert(-p <= t1 <= p) by(nonlinear_arith) requires sg * t1 * r <= p, sg * t1 >= 0, r >= 1, sg == 1 || sg == -1, p >= 2;
                assert(-p <= t <= p) by(nonlinear_arith) requires -(sg * t) * r1 <= p, sg * t <= 0, r1 >= 1, sg == 1 || sg == -1, p >= 2;
            }
            let q = r / r1;
            proof {
                vstd::arithmetic::div_mod::lemma_fundamental_div_mod(r as int, r1 as int);
                vstd::arithmetic::div_mod::lemma_mod_bound(r as int, r1 as int);
                assert(1 <= q <= r) by(nonlinear_arith) requires r == r1 * q + (r as int) % (r1 as int), 0 <= (r as int) % (r1 as int) < r1, 0 < r1 < r;
                // |q * t1| <= p
                assert(-p <= q * t1 <= p) by(nonlinear_arith)
                    requires sg * t1 * r <= p, sg * t1 >= 0, sg == 1 || sg == -1, r == r1 * q + (r as int) % (r1 as int), 0 <= (r as int) % (r1 as int), r1 >= 1, q >= 1;
                assert(0 <= q * r1 <= r) by(nonlinear_arith) requires r == r1 * q + (r as int) % (r1 as int), 0 <= (r as int) % (r1 as int), r1 >= 1, q >= 1;
            }
            let ghost (t_o, t1_o, r_o, r1_o, a_o, a1_o) = (t as int, t1 as int, r as int, r1 as int, a, a1);
            let tmp_t = (t1, t - q * t1); t = tmp_t.0; t1 = tmp_t.1;
            let tmp_r = (r1, r - q * r1); r = tmp_r.0; r1 = tmp_r.1;
            proof {
                sg = -sg;
                a = a1_o;
                a1 = a_o - q * a1_o;
                assert(t1 * r - t * r1 == sg * p) by(nonlinear_arith)
                    requires t == t1_o, t1 == t_o - q * t1_o, r == r1_o, r1 == r_o - q * r1_o, t1_o * r_o - t_o * r1_o == -sg * p;
                assert(sg * t <= 0) by(nonlinear_arith) requires t == t1_o, -sg * t1_o >= 0;
                assert(sg * t1 >= 0) by(nonlinear_arith) requires t1 == t_o - q * t1_o, -sg * t1_o >= 0, -sg * t_o <= 0, q >= 1, sg == 1 || sg == -1;
                assert(r1 == a1 * p + t1 * v) by(nonlinear_arith)
                    requires r1 == r_o - q * r1_o, r_o == a_o * p + t_o * v, r1_o == a1_o * p + t1_o * v, a1 == a_o - q * a1_o, t1 == t_o - q * t1_o;
                assert(r1 == r_o % r1_o);
            }
        }

        proof {
            // r1 == 0:  t1 * r == sg * p, so r divides p; 1 <= r < p and p prime give r == 1
            assert(r < p);
            let m = sg * t1;
            assert(p == r * m) by(nonlinear_arith) requires t1 * r - t * r1 == sg * p, r1 == 0, m == sg * t1, sg == 1 || sg == -1;
            if r > 1 {
                vstd::arithmetic::div_mod::lemma_mod_multiples_basic(m, r as int);
                assert(p == m * r) by(nonlinear_arith) requires p == r * m;
                assert(p % (r as int) == 0);
                assert(false);
            }
            assert(r >= 1);
        }
        assert_eq!(r, 1);

        proof {
            // 1 == a*p + t*v  ==>  (t mod p) * v mod p == 1
            assert(1 == a * p + t * v);
            vstd::arithmetic::div_mod::lemma_mul_mod_noop_left(t as int, v, p);
            vstd::arithmetic::div_mod::lemma_mod_multiples_vanish(a, t * v, p);
            vstd::arithmetic::div_mod::lemma_small_mod(1, p as nat);
            assert((a * p + t * v) % p == (t * v) % p) by {
                assert(a * p + t * v == p * a + t * v) by(nonlinear_arith);
            }
        }
        t.into()
    }
}

}
fn main() {}
