use vstd::prelude::*;
verus! {

pub struct IntPartition { pub _impl: usize }   // R6 stand-in
impl IntPartition {
    pub uninterp spec fn rep(&self, x: int) -> int;
    #[verifier::external_body]
    pub fn find(&self, x: usize) -> (r: usize) ensures r == self.rep(x as int) { unimplemented!() }
}

pub struct FreeWord { pub w: Vec<isize> }
impl FreeWord {
    pub open spec fn view(&self) -> Seq<isize> { self.w@ }
    pub fn len(&self) -> (r: usize) ensures r == self@.len() { self.w.len() }
    pub fn idx(&self, i: usize) -> (r: isize) requires i < self@.len() ensures r == self@[i as int] { self.w[i] }
}

pub struct CosetTable {
    pub nr_gens: usize,
    pub table: Vec<Vec<isize>>,
    pub part: IntPartition
}

impl CosetTable {
    pub open spec fn wf(&self) -> bool {
        &&& self.nr_gens < isize::MAX / 2
        &&& forall|c: int| 0 <= c < self.table@.len() ==> (#[trigger] self.table@[c])@.len() == 2 * self.nr_gens + 1
    }
    pub open spec fn gen_ok(&self, g: int) -> bool { -(self.nr_gens as int) <= g <= self.nr_gens as int }
    pub open spec fn raw(&self, c: int, g: int) -> int { self.table@[c]@[g + self.nr_gens] as int }
    // abstract action: canonical representative of the raw entry
    pub open spec fn act(&self, c: int, g: int) -> Option<usize> {
        if 0 <= c < self.table@.len() && self.raw(c, g) >= 0 { Some(self.part.rep(self.raw(c, g)) as usize) } else { None }
    }

    // real bodies (cosets.rs:36-67)
    pub fn len(&self) -> (r: usize) ensures r == self.table@.len() {
        self.table.len()
    }

    fn canon(&self, c: usize) -> (r: usize) ensures r == self.part.rep(c as int) {
        self.part.find(c)
    }

    pub fn get(&self, c: usize, g: isize) -> (r: Option<usize>)
        requires self.wf(), self.gen_ok(g as int)
        ensures r == self.act(c as int, g as int)
    {
        if c < self.len() {
            let r = self.table[c][(g + self.nr_gens as isize) as usize];
            if r >= 0 {
                Some(self.canon(r as usize))
            } else {
                None
            }
        } else {
            None
        }
    }

    pub fn set(&mut self, c: usize, g: isize, d: usize)
        requires old(self).wf(), old(self).gen_ok(g as int), d <= isize::MAX, c < usize::MAX
        ensures final(self).wf(), final(self).nr_gens == old(self).nr_gens, final(self).part == old(self).part,
            final(self).table@.len() == (if c < old(self).table@.len() { old(self).table@.len() } else { (c + 1) as nat }),
            final(self).raw(c as int, g as int) == d,
            forall|c2: int, g2: int| 0 <= c2 < old(self).table@.len() && old(self).gen_ok(g2) && !(c2 == c && g2 == g)
                ==> final(self).raw(c2, g2) == old(self).raw(c2, g2),
            forall|c2: int, g2: int| old(self).table@.len() <= c2 < final(self).table@.len() && old(self).gen_ok(g2) && !(c2 == c && g2 == g)
                ==> final(self).raw(c2, g2) == -1,
    {
        while c >= self.len()
            invariant self.wf(), self.nr_gens == old(self).nr_gens, self.part == old(self).part,
                self.table@.len() >= old(self).table@.len(),
                self.table@.len() <= c + 1 || self.table@.len() == old(self).table@.len(),
                forall|c2: int| 0 <= c2 < old(self).table@.len() ==> self.table@[c2] == old(self).table@[c2],
                forall|c2: int, k: int| old(self).table@.len() <= c2 < self.table@.len() && 0 <= k < 2 * self.nr_gens + 1 ==> self.table@[c2]@[k] == -1,
            decreases c + 1 - self.table@.len()
        {
            self.table.push(vec![-1; self.nr_gens * 2 + 1]);
        }
        self.table[c][(g + self.nr_gens as isize) as usize] = d as isize;
    }

    fn join(&mut self, c: usize, d: usize, g: isize)
        requires old(self).wf(), old(self).gen_ok(g as int), c <= isize::MAX, d <= isize::MAX, c < usize::MAX, d < usize::MAX, g > isize::MIN
        ensures final(self).wf(), final(self).raw(d as int, -(g as int)) == c, (c != d || g != 0) ==> final(self).raw(c as int, g as int) == d
    {
        self.set(c, g, d);
        self.set(d, -g, c);
    }
}

pub open spec fn trace(t: &CosetTable, row: int, w: Seq<isize>) -> Option<usize>
    decreases w.len()
{
    if w.len() == 0 { Some(row as usize) }
    else { match trace(t, row, w.drop_last()) { Some(x) => t.act(x as int, w.last() as int), None => None } }
}

pub open spec fn gens_ok(t: &CosetTable, w: Seq<isize>) -> bool { forall|k: int| 0 <= k < w.len() ==> t.gen_ok(#[trigger] w[k] as int) }

// real body (cosets.rs:160) with `w[index]` on FreeWord written as idx (its Index impl)
fn scan(table: &CosetTable, w: &FreeWord, start: usize, limit: usize) -> (res: (usize, usize))
    requires table.wf(), gens_ok(table, w@), limit <= w@.len()
    ensures res.1 <= limit, trace(table, start as int, w@.take(res.1 as int)) == Some(res.0),
        res.1 < limit ==> table.act(res.0 as int, w@[res.1 as int] as int).is_none(),
{
    let mut row = start;
    proof { assert(w@.take(0) =~= Seq::<isize>::empty()); }

    for index in 0..limit
        invariant table.wf(), gens_ok(table, w@), limit <= w@.len(),
            trace(table, start as int, w@.take(index as int)) == Some(row),
    {
        if let Some(next) = table.get(row, w.idx(index)) {
            proof {
                assert(w@.take(index + 1).drop_last() =~= w@.take(index as int));
                assert(w@.take(index + 1).last() == w@[index as int]);
            }
            row = next;
        } else {
            return (row, index);
        }
    }
    (row, limit)
}

}
fn main() {}
