use vstd::prelude::*;
use vstd::std_specs::iter::*;
use vstd::std_specs::ops::*;
use std::ops::{Mul, MulAssign};
verus! {
pub assume_specification<T, F: FnOnce(T) -> bool>[Option::<T>::is_some_and](o: Option<T>, f: F) -> (r: bool)
    requires o.is_some() ==> f.requires((o.unwrap(),)),
    ensures o.is_some() ==> f.ensures((o.unwrap(),), r),
           o.is_none() ==> !r,
;

// ---- spec layer (lemmas proved in probes/free_words_reduce_lemmas.rs) ----
pub open spec fn step(buf: Seq<isize>, x: isize) -> Seq<isize> {
    if buf.len() > 0 && x as int == -(buf.last() as int) { buf.drop_last() }
    else if x != 0 { buf.push(x) }
    else { buf }
}
pub open spec fn reduce_from(buf: Seq<isize>, s: Seq<isize>) -> Seq<isize>
    decreases s.len()
{
    if s.len() == 0 { buf } else { reduce_from(step(buf, s[0]), s.drop_first()) }
}
pub open spec fn reduce(s: Seq<isize>) -> Seq<isize> { reduce_from(Seq::empty(), s) }
pub open spec fn letters_ok(s: Seq<isize>) -> bool {
    forall|k: int| 0 <= k < s.len() ==> #[trigger] s[k] > isize::MIN
}
pub open spec fn reduced(s: Seq<isize>) -> bool {
    &&& forall|k: int| 0 <= k < s.len() ==> #[trigger] s[k] != 0 && s[k] > isize::MIN
    &&& forall|k: int| 0 <= k < s.len() - 1 ==> (#[trigger] s[k + 1]) as int != -(s[k] as int)
}
#[verifier::external_body]
pub proof fn lemma_reduce_reduced(s: Seq<isize>) requires letters_ok(s) ensures reduced(reduce(s)) {}

pub struct FreeWord { w: Vec<isize> }

impl FreeWord {
    #[verifier::type_invariant]
    spec fn inv(self) -> bool { reduced(self.w@) }
    pub closed spec fn view(&self) -> Seq<isize> { self.w@ }
}

#[verifier::exec_allows_no_decreases_clause]
fn normalized<I>(w: I) -> (r: Vec<isize>) where I: Iterator<Item=isize>
    requires forall|j: I| #[trigger] j.obeys_prophetic_iter_laws(), letters_ok(w.remaining()),
    ensures r@ == reduce(w.remaining())
{
    proof { assert(w.remaining().skip(0) =~= w.remaining()); }
    let mut buffer = Vec::with_capacity(32);

    for x in it: w.into_iter()
        invariant
            letters_ok(buffer@), letters_ok(it.seq()),
            forall|j: I| #[trigger] j.obeys_prophetic_iter_laws(),
            it.seq() == w.remaining(),
            0 <= it.index() <= it.seq().len(),
            reduce_from(buffer@, it.seq().skip(it.index() as int)) == reduce(w.remaining()),
    {
        proof {
            assert(x == it.seq()[it.index() as int]);
            let rest = it.seq().skip(it.index() as int);
            assert(rest[0] == x);
            assert(rest.drop_first() == it.seq().skip(it.index() + 1));
        }
        if buffer.last().is_some_and(|y: &isize| -> (b: bool) requires *y > isize::MIN ensures b == (x as int == -(*y as int)) { x == -y }) {
            buffer.pop();
        } else if x != 0 {
            buffer.push(x);
        }
    }
    proof { assert(w.remaining().skip(w.remaining().len() as int) =~= Seq::<isize>::empty()); }
    buffer
}

impl FreeWord {
    // real body (free_words.rs:28), R3
    pub fn new<I>(w: I) -> (r: Self) where I: Iterator<Item=isize>
        requires forall|j: I| #[trigger] j.obeys_prophetic_iter_laws(), letters_ok(w.remaining()),
        ensures r@ == reduce(w.remaining())
    {
        proof { lemma_reduce_reduced(w.remaining()); }
        Self { w: normalized(w) }
    }

    // real body (free_words.rs:44); closure contract injected
    pub fn inverse(&self) -> (r: Self)
        // exact value `reduce(neg(reverse(self@)))` is NOT provable: vstd's map_postcondition only gives
        // map.remaining().len() <= inner.remaining().len(); the type invariant (reducedness) is proved.
    {
        proof { use_type_invariant(self); }
        let r = Self::new(self.w.iter().rev().map(|x: &isize| -> (y: isize) requires *x > isize::MIN ensures y == -(*x as int) { -x }));
        r
    }
}

#[verifier::external_body]
fn mul(lhs: &[isize], rhs: &[isize]) -> (r: Vec<isize>)
    ensures r@ == lhs@ + rhs@
{ unimplemented!() }

impl MulSpecImpl<&FreeWord> for &FreeWord {
    open spec fn obeys_mul_spec() -> bool { false }
    open spec fn mul_req(self, rhs: &FreeWord) -> bool { true }
    open spec fn mul_spec(self, rhs: &FreeWord) -> FreeWord { arbitrary() }
}

impl Mul<&FreeWord> for &FreeWord {
    type Output = FreeWord;

    // real body (free_words.rs:90), R3 (`.into_iter()` at the call site)
    fn mul(self, rhs: &FreeWord) -> (r: Self::Output)
        ensures r@ == reduce(self@ + rhs@)
    {
        proof {
            use_type_invariant(self); use_type_invariant(rhs);
            assert(letters_ok(self.w@ + rhs.w@)) by {
                assert forall|k: int| 0 <= k < (self.w@ + rhs.w@).len() implies #[trigger] (self.w@ + rhs.w@)[k] > isize::MIN by {
                    if k < self.w@.len() { assert((self.w@ + rhs.w@)[k] == self.w@[k]); } else { assert((self.w@ + rhs.w@)[k] == rhs.w@[k - self.w@.len()]); }
                }
            }
        }
        FreeWord::new(mul(&self.w, &rhs.w).into_iter())
    }
}

impl MulAssignSpecImpl<&FreeWord> for FreeWord {
    open spec fn obeys_mul_assign_spec() -> bool { false }
    open spec fn mul_assign_req(&self, rhs: &FreeWord) -> bool { true }
    open spec fn mul_assign_spec(&self, rhs: &FreeWord) -> &FreeWord { arbitrary() }
}

impl MulAssign<&FreeWord> for FreeWord {
    // REPAIRED body (free_words.rs:142)
    fn mul_assign(&mut self, rhs: &FreeWord)
        ensures final(self)@ == reduce(old(self)@ + rhs@)
    {
        proof {
            use_type_invariant(&*self); use_type_invariant(rhs);
            assert(letters_ok(self.w@ + rhs.w@)) by {
                assert forall|k: int| 0 <= k < (self.w@ + rhs.w@).len() implies #[trigger] (self.w@ + rhs.w@)[k] > isize::MIN by {
                    if k < self.w@.len() { assert((self.w@ + rhs.w@)[k] == self.w@[k]); } else { assert((self.w@ + rhs.w@)[k] == rhs.w@[k - self.w@.len()]); }
                }
            }
            lemma_reduce_reduced(self.w@ + rhs.w@);
        }
        self.w = normalized(mul(&self.w, &rhs.w).into_iter());
    }
}

}
fn main() {}
