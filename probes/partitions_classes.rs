use vstd::prelude::*;
use std::collections::HashMap;
verus! {

struct IntPartition { _impl: usize }   // stand-in for the UnsafeCell wrapper (R6): abstract view only

impl IntPartition {
    uninterp spec fn rep(&self, x: int) -> int;

    #[verifier::external_body]
    fn find(&self, x: usize) -> (r: usize)
        ensures r == self.rep(x as int)
    { unimplemented!() }

    // real body (partitions.rs:204) with R2 on `for &e`
    fn classes(&self, elms: &[usize]) -> (classes: Vec<Vec<usize>>)
        ensures
            forall|k: int| 0 <= k < classes@.len() ==> (#[trigger] classes@[k])@.len() > 0,
            // members of one class share a representative, different classes have different representatives
            forall|k: int, a: int, b: int| 0 <= k < classes@.len() && 0 <= a < classes@[k]@.len() && 0 <= b < classes@[k]@.len()
                ==> self.rep(#[trigger] classes@[k]@[a] as int) == self.rep(#[trigger] classes@[k]@[b] as int),
            forall|k: int, l: int| 0 <= k < l < classes@.len()
                ==> self.rep((#[trigger] classes@[k])@[0] as int) != self.rep((#[trigger] classes@[l])@[0] as int),
    {
        let mut class_for_rep: HashMap<usize, usize> = HashMap::new();
        let mut classes: Vec<Vec<usize>> = vec![];

        for e_ref in it: elms
            invariant
                forall|k: int| 0 <= k < classes@.len() ==> (#[trigger] classes@[k])@.len() > 0,
                forall|k: int, a: int, b: int| 0 <= k < classes@.len() && 0 <= a < classes@[k]@.len() && 0 <= b < classes@[k]@.len()
                    ==> self.rep(#[trigger] classes@[k]@[a] as int) == self.rep(#[trigger] classes@[k]@[b] as int),
                forall|k: int, l: int| 0 <= k < l < classes@.len()
                    ==> self.rep((#[trigger] classes@[k])@[0] as int) != self.rep((#[trigger] classes@[l])@[0] as int),
                // the map is exactly: representative of class k -> k
                forall|r: usize| #[trigger] class_for_rep@.contains_key(r) ==>
                    class_for_rep@[r] < classes@.len() && self.rep(classes@[class_for_rep@[r] as int]@[0] as int) == r,
                forall|k: int| 0 <= k < classes@.len() ==>
                    class_for_rep@.contains_key(self.rep((#[trigger] classes@[k])@[0] as int) as usize),
        {
            let e = *e_ref;
            let rep = self.find(e);
            if let Some(cl) = class_for_rep.get(&rep) {
                let class: &mut Vec<_> = &mut classes[*cl];
                class.push(e.clone());
            } else {
                class_for_rep.insert(rep, classes.len());
                classes.push(vec![e.clone()]);
            }
        }

        classes
    }
}

}
fn main() {}
