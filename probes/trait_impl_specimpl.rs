use vstd::prelude::*;
use std::ops::{Mul, MulAssign};
verus! {
pub struct W { pub w: Vec<isize> }

impl vstd::std_specs::ops::MulSpecImpl<&W> for &W {
    open spec fn obeys_mul_spec() -> bool { false }
    open spec fn mul_req(self, rhs: &W) -> bool { self.w@.len() < 5 }
    open spec fn mul_spec(self, rhs: &W) -> W { arbitrary() }
}

impl Mul<&W> for &W {
    type Output = W;
    fn mul(self, rhs: &W) -> W {
        assert(self.w@.len() < 5);
        W { w: Vec::new() }
    }
}

impl vstd::std_specs::ops::MulSpecImpl<isize> for W {
    open spec fn obeys_mul_spec() -> bool { false }
    open spec fn mul_req(self, rhs: isize) -> bool { true }
    open spec fn mul_spec(self, rhs: isize) -> W { arbitrary() }
}
impl Mul<isize> for W {
    type Output = W;
    fn mul(self, rhs: isize) -> (r: W)
        ensures r.w@.len() == 0
    {
        W { w: Vec::new() }
    }
}

fn user2(a: W) -> (r: W)
    ensures r.w@.len() == 0
{
    a * 3
}
fn user3(a: &W, b: &W) -> W
    requires a.w@.len() < 5
{
    a.mul(b)
}
}
fn main() {}
