use vstd::prelude::*;
use vstd::std_specs::iter::*;
verus! {
pub assume_specification<T, F: FnOnce(T) -> bool>[Option::<T>::is_some_and](o: Option<T>, f: F) -> (r: bool)
    requires o.is_some() ==> f.requires((o.unwrap(),)),
    ensures o.is_some() ==> f.ensures((o.unwrap(),), r),
           o.is_none() ==> !r,
;
spec fn step(buf: Seq<isize>, x: isize) -> Seq<isize> {
    if buf.len() > 0 && x as int == -(buf.last() as int) { buf.drop_last() }
    else if x != 0 { buf.push(x) }
    else { buf }
}
spec fn reduce_from(buf: Seq<isize>, s: Seq<isize>) -> Seq<isize>
    decreases s.len()
{
    if s.len() == 0 { buf } else { reduce_from(step(buf, s[0]), s.drop_first()) }
}
spec fn letters_ok(s: Seq<isize>) -> bool {
    forall|k: int| 0 <= k < s.len() ==> #[trigger] s[k] > isize::MIN
}

#[verifier::exec_allows_no_decreases_clause]
fn normalized<I>(w: I) -> (r: Vec<isize>) where I: Iterator<Item=isize>
    requires forall|j: I| #[trigger] j.obeys_prophetic_iter_laws(), letters_ok(w.remaining()),
    ensures r@ == reduce_from(Seq::empty(), w.remaining())
{
    proof { assert(w.remaining().skip(0) =~= w.remaining()); }
    let mut buffer = Vec::with_capacity(32);

    for x in it: w.into_iter()
        invariant
            letters_ok(buffer@),
            letters_ok(it.seq()),
            forall|j: I| #[trigger] j.obeys_prophetic_iter_laws(),
            it.seq() == w.remaining(),
            0 <= it.index() <= it.seq().len(),
            reduce_from(buffer@, it.seq().skip(it.index() as int)) == reduce_from(Seq::empty(), w.remaining()),
    {
        proof {
            assert(x == it.seq()[it.index() as int]);
            let rest = it.seq().skip(it.index() as int);
            assert(rest[0] == x);
            assert(rest.drop_first() == it.seq().skip(it.index() + 1));
        }
        if buffer.last().is_some_and(|y: &isize| -> (b: bool) requires *y > isize::MIN ensures b == (x as int == -(*y as int)) { x == -y }) {
            buffer.pop();
        } else if x != 0 {
            buffer.push(x);
        }
    }

    proof { assert(w.remaining().skip(w.remaining().len() as int) =~= Seq::<isize>::empty()); }
    buffer
}

fn inv(v: &Vec<isize>) -> (r: Vec<isize>)
    requires letters_ok(v@)
{
    normalized(v.iter().rev().map(|x: &isize| -> (y: isize) requires *x > isize::MIN ensures y == -(*x as int) { -x }))
}

fn from_vec(v: Vec<isize>) -> (r: Vec<isize>)
    requires letters_ok(v@)
    ensures r@ == reduce_from(Seq::empty(), v@)
{
    normalized(v.into_iter())
}
}
fn main() {}
