use vstd::prelude::*;
use std::cmp::Ordering;
verus! {

// letter order: positive letters first (by value), then negative letters by magnitude
spec fn letter_lt(x: isize, y: isize) -> bool {
    if x > 0 && y > 0 { x < y } else { y < x }
}

spec fn word_cmp(a: Seq<isize>, b: Seq<isize>) -> Ordering
    decreases a.len()
{
    if a.len() == 0 || b.len() == 0 {
        if a.len() < b.len() { Ordering::Less } else if a.len() > b.len() { Ordering::Greater } else { Ordering::Equal }
    } else if a[0] != b[0] {
        if letter_lt(a[0], b[0]) { Ordering::Less } else { Ordering::Greater }
    } else {
        word_cmp(a.drop_first(), b.drop_first())
    }
}

spec fn rev(o: Ordering) -> Ordering {
    match o { Ordering::Less => Ordering::Greater, Ordering::Greater => Ordering::Less, Ordering::Equal => Ordering::Equal }
}

spec fn nz(s: Seq<isize>) -> bool { forall|k: int| 0 <= k < s.len() ==> #[trigger] s[k] != 0 }

proof fn lemma_letter_total(x: isize, y: isize)
    requires x != 0, y != 0, x != y
    ensures letter_lt(x, y) != letter_lt(y, x)
{}

proof fn lemma_letter_trans(x: isize, y: isize, z: isize)
    requires x != 0, y != 0, z != 0, letter_lt(x, y), letter_lt(y, z)
    ensures letter_lt(x, z)
{}

proof fn lemma_cmp_equal(a: Seq<isize>, b: Seq<isize>)
    ensures (word_cmp(a, b) == Ordering::Equal) <==> a == b
    decreases a.len()
{
    if a.len() == 0 || b.len() == 0 {
        if a.len() == b.len() { assert(a =~= b); }
    } else if a[0] != b[0] {
    } else {
        lemma_cmp_equal(a.drop_first(), b.drop_first());
        if a.drop_first() == b.drop_first() { assert(a =~= seq![a[0]] + a.drop_first()); assert(b =~= seq![b[0]] + b.drop_first()); }
    }
}

proof fn lemma_cmp_antisym(a: Seq<isize>, b: Seq<isize>)
    requires nz(a), nz(b)
    ensures word_cmp(b, a) == rev(word_cmp(a, b))
    decreases a.len()
{
    if a.len() == 0 || b.len() == 0 {
    } else if a[0] != b[0] {
        lemma_letter_total(a[0], b[0]);
    } else {
        assert(nz(a.drop_first())) by { assert forall|k: int| 0 <= k < a.drop_first().len() implies #[trigger] a.drop_first()[k] != 0 by { assert(a.drop_first()[k] == a[k + 1]); } }
        assert(nz(b.drop_first())) by { assert forall|k: int| 0 <= k < b.drop_first().len() implies #[trigger] b.drop_first()[k] != 0 by { assert(b.drop_first()[k] == b[k + 1]); } }
        lemma_cmp_antisym(a.drop_first(), b.drop_first());
    }
}

proof fn lemma_cmp_trans(a: Seq<isize>, b: Seq<isize>, c: Seq<isize>)
    requires nz(a), nz(b), nz(c), word_cmp(a, b) == Ordering::Less, word_cmp(b, c) == Ordering::Less
    ensures word_cmp(a, c) == Ordering::Less
    decreases a.len()
{
    if a.len() == 0 {
    } else if b.len() == 0 || c.len() == 0 {
    } else {
        assert(a[0] != 0 && b[0] != 0 && c[0] != 0);
        if a[0] != b[0] {
            if b[0] != c[0] { lemma_letter_trans(a[0], b[0], c[0]); lemma_letter_total(a[0], c[0]); if a[0] == c[0] { lemma_letter_total(a[0], b[0]); } }
            else { }
        } else if b[0] != c[0] {
        } else {
            assert(nz(a.drop_first())) by { assert forall|k: int| 0 <= k < a.drop_first().len() implies #[trigger] a.drop_first()[k] != 0 by { assert(a.drop_first()[k] == a[k + 1]); } }
            assert(nz(b.drop_first())) by { assert forall|k: int| 0 <= k < b.drop_first().len() implies #[trigger] b.drop_first()[k] != 0 by { assert(b.drop_first()[k] == b[k + 1]); } }
            assert(nz(c.drop_first())) by { assert forall|k: int| 0 <= k < c.drop_first().len() implies #[trigger] c.drop_first()[k] != 0 by { assert(c.drop_first()[k] == c[k + 1]); } }
            lemma_cmp_trans(a.drop_first(), b.drop_first(), c.drop_first());
        }
    }
}

struct FreeWord { w: Vec<isize> }

// loop-form characterisation used by the exec proof
proof fn lemma_cmp_prefix(a: Seq<isize>, b: Seq<isize>, k: int)
    requires 0 <= k <= a.len(), k <= b.len(), forall|j: int| 0 <= j < k ==> a[j] == b[j]
    ensures word_cmp(a, b) == word_cmp(a.skip(k), b.skip(k))
    decreases k
{
    if k == 0 { assert(a.skip(0) =~= a); assert(b.skip(0) =~= b); }
    else {
        lemma_cmp_prefix(a.drop_first(), b.drop_first(), k - 1);
        assert(a.drop_first().skip(k - 1) =~= a.skip(k));
        assert(b.drop_first().skip(k - 1) =~= b.skip(k));
    }
}

impl FreeWord {
    // real body of `impl Ord for FreeWord` (free_words.rs:156)
    fn cmp(&self, other: &Self) -> (r: Ordering)
        ensures r == word_cmp(self.w@, other.w@)
    {
        for i in 0..(self.w.len().min(other.w.len()))
            invariant forall|j: int| 0 <= j < i ==> self.w@[j] == other.w@[j]
        {
            let x = self.w[i];
            let y = other.w[i];

            if x != y {
                proof {
                    lemma_cmp_prefix(self.w@, other.w@, i as int);
                    assert(self.w@.skip(i as int)[0] == x);
                    assert(other.w@.skip(i as int)[0] == y);
                }
                if x > 0 && y > 0 {
                    return x.cmp(&y);
                } else {
                    return y.cmp(&x);
                }
            }
        }

        proof {
            let n = if self.w@.len() <= other.w@.len() { self.w@.len() as int } else { other.w@.len() as int };
            lemma_cmp_prefix(self.w@, other.w@, n);
        }
        self.w.len().cmp(&other.w.len())
    }
}

}
fn main() {}
