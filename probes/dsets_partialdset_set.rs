#![feature(panic_internals)]
#![feature(sized_hierarchy)]
use vstd::prelude::*;
verus! {
#[verifier::external_type_specification]
pub struct ExAssertKind(core::panicking::AssertKind);

pub assume_specification<T, U> [core::panicking::assert_failed] (_0: core::panicking::AssertKind, _1: &T, _2: &U, _3: std::option::Option<std::fmt::Arguments<'_>>) -> !
    where
    T: std::marker::MetaSized + std::fmt::Debug + ?Sized,
    U: std::marker::MetaSized + std::fmt::Debug + ?Sized,
    requires false;

struct PartialDSet {
    size: usize,
    dim: usize,
    op: Vec<usize>,
}

spec fn sidx(dim: int, i: int, d: int) -> int { (d - 1) * (dim + 1) + i }

proof fn lemma_idx_bound(size: int, dim: int, i: int, d: int)
    requires 0 <= i <= dim, 1 <= d <= size,
    ensures 0 <= sidx(dim, i, d) < size * (dim + 1), dim + 1 <= size * (dim + 1), 0 <= (d - 1) * (dim + 1) <= sidx(dim, i, d)
{
    assert((d - 1) * (dim + 1) + i < size * (dim + 1)) by(nonlinear_arith)
        requires 0 <= i <= dim, 1 <= d <= size;
    assert(0 <= (d - 1) * (dim + 1)) by(nonlinear_arith)
        requires 0 <= dim, 1 <= d;
    assert(dim + 1 <= size * (dim + 1)) by(nonlinear_arith)
        requires 0 <= dim, 1 <= size;
}

proof fn lemma_idx_inj(dim: int, i: int, d: int, j: int, e: int)
    requires 0 <= i <= dim, 0 <= j <= dim, 1 <= d, 1 <= e, sidx(dim, i, d) == sidx(dim, j, e)
    ensures i == j, d == e
{
    assert(d == e) by(nonlinear_arith)
        requires 0 <= i <= dim, 0 <= j <= dim, 1 <= d, 1 <= e, (d - 1) * (dim + 1) + i == (e - 1) * (dim + 1) + j;
}

impl PartialDSet {
    spec fn sop(&self, i: int, d: int) -> int {
        self.op@[sidx(self.dim as int, i, d)] as int
    }

    spec fn wf(&self) -> bool {
        &&& self.size >= 1
        &&& self.dim >= 1
        &&& self.op@.len() == self.size * (self.dim + 1)
        &&& self.op@.len() <= usize::MAX
        &&& forall|i: int, d: int| 0 <= i <= self.dim && 1 <= d <= self.size ==> {
                let e = #[trigger] self.sop(i, d);
                e == 0 || (1 <= e <= self.size && self.sop(i, e) == d)
            }
    }

    fn idx(&self, i: usize, d: usize) -> (r: usize)
        requires self.wf(), i <= self.dim, 1 <= d <= self.size,
        ensures r == sidx(self.dim as int, i as int, d as int), r < self.op@.len(),
    {
        proof { lemma_idx_bound(self.size as int, self.dim as int, i as int, d as int); }
        (d - 1) * (self.dim + 1) + i
    }

    fn op_unchecked(&self, i: usize, d: usize) -> (r: usize)
        requires self.wf(), i <= self.dim, 1 <= d <= self.size,
        ensures r == self.sop(i as int, d as int)
    {
        self.op[self.idx(i, d)]
    }

    fn set(&mut self, i: usize, d: usize, e: usize)
        requires old(self).wf(),
            i <= old(self).dim, 1 <= d <= old(self).size, 1 <= e <= old(self).size,
            old(self).sop(i as int, d as int) == 0 || old(self).sop(i as int, d as int) == e,
            old(self).sop(i as int, e as int) == 0 || old(self).sop(i as int, e as int) == d,
        ensures final(self).wf(), final(self).size == old(self).size, final(self).dim == old(self).dim,
            final(self).sop(i as int, d as int) == e,
            final(self).sop(i as int, e as int) == d,
            forall|j: int, c: int| 0 <= j <= old(self).dim && 1 <= c <= old(self).size && !(j == i && (c == d || c == e))
                ==> final(self).sop(j, c) == old(self).sop(j, c),
    {
        assert!(i <= self.dim);
        assert!(1 <= d && d <= self.size);
        assert!(1 <= e && e <= self.size);

        let di = self.op_unchecked(i, d);
        let ei = self.op_unchecked(i, e);

        if di != 0 {
            assert_eq!(di, e);
        }
        if ei != 0 {
            assert_eq!(ei, d);
        }

        let kd = self.idx(i, d);
        let ke = self.idx(i, e);

        self.op[kd] = e;
        self.op[ke] = d;

        proof {
            let dim = self.dim as int;
            assert forall|j: int, c: int| 0 <= j <= self.dim && 1 <= c <= self.size implies
                (sidx(dim, j, c) == kd <==> (j == i && c == d)) && (sidx(dim, j, c) == ke <==> (j == i && c == e)) by {
                if sidx(dim, j, c) == kd { lemma_idx_inj(dim, j, c, i as int, d as int); }
                if sidx(dim, j, c) == ke { lemma_idx_inj(dim, j, c, i as int, e as int); }
            }
            assert forall|j: int, c: int| 0 <= j <= self.dim && 1 <= c <= self.size implies ({
                let x = #[trigger] self.sop(j, c);
                x == 0 || (1 <= x <= self.size && self.sop(j, x) == c)
            }) by {
                lemma_idx_bound(self.size as int, dim, j, c);
                let x0 = old(self).sop(j, c);
                if x0 != 0 { lemma_idx_bound(self.size as int, dim, j, x0); }
            }
        }
    }
}

} // verus!
fn main() {}
