use vstd::prelude::*;
verus! {

// abstract pair of involutions on 1..=n
pub struct Inv2 { pub n: int, pub s: spec_fn(int) -> int, pub t: spec_fn(int) -> int }

impl Inv2 {
    pub open spec fn wf(&self) -> bool {
        &&& forall|x: int| 1 <= x <= self.n ==> 1 <= #[trigger] (self.s)(x) <= self.n && (self.s)((self.s)(x)) == x
        &&& forall|x: int| 1 <= x <= self.n ==> 1 <= #[trigger] (self.t)(x) <= self.n && (self.t)((self.t)(x)) == x
    }
    pub open spec fn step(&self, x: int) -> int { (self.t)((self.s)(x)) }
    pub open spec fn istep(&self, x: int) -> int { (self.s)((self.t)(x)) }
    pub open spec fn iter(&self, x: int, k: nat) -> int decreases k {
        if k == 0 { x } else { self.step(self.iter(x, (k - 1) as nat)) }
    }
    pub open spec fn iiter(&self, x: int, k: nat) -> int decreases k {
        if k == 0 { x } else { self.istep(self.iiter(x, (k - 1) as nat)) }
    }
    // n is the least return time of x under step
    pub open spec fn ret(&self, x: int, m: nat) -> bool {
        m >= 1 && self.iter(x, m) == x && forall|k: nat| 0 < k < m ==> #[trigger] self.iter(x, k) != x
    }
    pub open spec fn iret(&self, x: int, m: nat) -> bool {
        m >= 1 && self.iiter(x, m) == x && forall|k: nat| 0 < k < m ==> #[trigger] self.iiter(x, k) != x
    }
}

proof fn lemma_range(p: &Inv2, x: int, k: nat)
    requires p.wf(), 1 <= x <= p.n
    ensures 1 <= p.iter(x, k) <= p.n, 1 <= p.iiter(x, k) <= p.n
    decreases k
{
    if k > 0 {
        lemma_range(p, x, (k - 1) as nat);
        let y = p.iter(x, (k - 1) as nat);
        assert(1 <= (p.s)(y) <= p.n);
        let z = p.iiter(x, (k - 1) as nat);
        assert(1 <= (p.t)(z) <= p.n);
    }
}

proof fn lemma_step_istep(p: &Inv2, x: int)
    requires p.wf(), 1 <= x <= p.n
    ensures p.step(p.istep(x)) == x, p.istep(p.step(x)) == x, 1 <= p.step(x) <= p.n, 1 <= p.istep(x) <= p.n
{
    assert(1 <= (p.t)(x) <= p.n);
    assert(1 <= (p.s)(x) <= p.n);
    assert((p.s)((p.s)((p.t)(x))) == (p.t)(x));
    assert((p.t)((p.t)((p.s)(x))) == (p.s)(x));
}

proof fn lemma_iter_add(p: &Inv2, x: int, a: nat, b: nat)
    ensures p.iter(p.iter(x, a), b) == p.iter(x, a + b), p.iiter(p.iiter(x, a), b) == p.iiter(x, a + b)
    decreases b
{
    if b > 0 { lemma_iter_add(p, x, a, (b - 1) as nat); }
}

// front form: iter(x, k+1) == iter(step x, k)
proof fn lemma_iter_front(p: &Inv2, x: int, k: nat)
    ensures p.iter(x, k + 1) == p.iter(p.step(x), k), p.iiter(x, k + 1) == p.iiter(p.istep(x), k)
{
    lemma_iter_add(p, x, 1, k);
    assert(p.iter(x, 1) == p.step(p.iter(x, 0)));
    assert(p.iiter(x, 1) == p.istep(p.iiter(x, 0)));
}

// iter and iiter undo each other
proof fn lemma_iter_iiter(p: &Inv2, x: int, k: nat)
    requires p.wf(), 1 <= x <= p.n
    ensures p.iter(p.iiter(x, k), k) == x, p.iiter(p.iter(x, k), k) == x
    decreases k
{
    if k > 0 {
        lemma_range(p, x, (k - 1) as nat);
        let y = p.iiter(x, (k - 1) as nat);
        lemma_iter_front(p, p.istep(y), (k - 1) as nat);
        lemma_step_istep(p, y);
        lemma_iter_iiter(p, x, (k - 1) as nat);
        let z = p.iter(x, (k - 1) as nat);
        lemma_iter_front(p, p.step(z), (k - 1) as nat);
        lemma_step_istep(p, z);
    }
}

// same fixed points: iter(x,k)==x <==> iiter(x,k)==x
proof fn lemma_fix_equiv(p: &Inv2, x: int, k: nat)
    requires p.wf(), 1 <= x <= p.n
    ensures (p.iter(x, k) == x) <==> (p.iiter(x, k) == x)
{
    lemma_iter_iiter(p, x, k);
}

proof fn lemma_ret_iret(p: &Inv2, x: int, m: nat)
    requires p.wf(), 1 <= x <= p.n
    ensures p.ret(x, m) <==> p.iret(x, m)
{
    lemma_fix_equiv(p, x, m);
    assert forall|k: nat| 0 < k < m implies ((#[trigger] p.iter(x, k) != x) <==> (p.iiter(x, k) != x)) by { lemma_fix_equiv(p, x, k); }
    if p.ret(x, m) {
        assert forall|k: nat| 0 < k < m implies #[trigger] p.iiter(x, k) != x by { lemma_fix_equiv(p, x, k); assert(p.iter(x, k) != x); }
    }
    if p.iret(x, m) {
        assert forall|k: nat| 0 < k < m implies #[trigger] p.iter(x, k) != x by { lemma_fix_equiv(p, x, k); assert(p.iiter(x, k) != x); }
    }
}

// (B) conjugation by s: iter(s x, k) == s(iiter(x, k))
proof fn lemma_conj(p: &Inv2, x: int, k: nat)
    requires p.wf(), 1 <= x <= p.n
    ensures p.iter((p.s)(x), k) == (p.s)(p.iiter(x, k))
    decreases k
{
    if k > 0 {
        lemma_conj(p, x, (k - 1) as nat);
        lemma_range(p, x, (k - 1) as nat);
        let y = p.iiter(x, (k - 1) as nat);
        // step(s y) = t(s(s y)) = t y ;  s(istep y) = s(s(t y)) = t y
        assert((p.s)((p.s)(y)) == y);
        assert(1 <= (p.t)(y) <= p.n);
        assert((p.s)((p.s)((p.t)(y))) == (p.t)(y));
    }
}

proof fn lemma_ret_s(p: &Inv2, x: int, m: nat)
    requires p.wf(), 1 <= x <= p.n, p.ret(x, m)
    ensures p.ret((p.s)(x), m)
{
    lemma_ret_iret(p, x, m);
    let sx = (p.s)(x);
    lemma_conj(p, x, m);
    assert forall|k: nat| 0 < k < m implies #[trigger] p.iter(sx, k) != sx by {
        lemma_conj(p, x, k);
        lemma_range(p, x, k);
        let y = p.iiter(x, k);
        assert(y != x);
        if (p.s)(y) == sx { assert((p.s)((p.s)(y)) == y); assert((p.s)((p.s)(x)) == x); }
    }
}

// (A) shift along the cycle
proof fn lemma_peel(p: &Inv2, x: int, a: nat, k: nat)
    requires p.wf(), 1 <= x <= p.n, p.iter(x, a + k) == p.iter(x, a)
    ensures p.iter(x, k) == x
{
    lemma_iter_add(p, x, k, a);
    assert(a + k == k + a);
    // iter(iter(x,k), a) == iter(x, a): apply iiter a times to both
    lemma_range(p, x, k);
    lemma_iter_iiter(p, p.iter(x, k), a);
    lemma_iter_iiter(p, x, a);
}

proof fn lemma_ret_shift(p: &Inv2, x: int, m: nat, j: nat)
    requires p.wf(), 1 <= x <= p.n, p.ret(x, m)
    ensures p.ret(p.iter(x, j), m)
{
    let y = p.iter(x, j);
    lemma_iter_add(p, x, j, m);
    lemma_iter_add(p, x, m, j);
    assert(j + m == m + j);
    assert(p.iter(y, m) == y);
    assert forall|k: nat| 0 < k < m implies #[trigger] p.iter(y, k) != y by {
        lemma_iter_add(p, x, j, k);
        if p.iter(y, k) == y { lemma_peel(p, x, j, k); }
    }
}

}
fn main() {}
