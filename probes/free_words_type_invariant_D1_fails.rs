use vstd::prelude::*;
use std::cmp::Ordering;
use std::ops::{Mul, MulAssign};
verus! {

#[derive(Clone, Debug, Eq, PartialEq, Hash)]
pub struct FreeWord {
    w: Vec<isize>
}

pub open spec fn reduced(s: Seq<isize>) -> bool {
    &&& forall|k: int| 0 <= k < s.len() ==> #[trigger] s[k] != 0 && s[k] > isize::MIN
    &&& forall|k: int| 0 <= k < s.len() - 1 ==> (#[trigger] s[k]) as int != -(s[k + 1] as int)
}

impl FreeWord {
    #[verifier::type_invariant]
    spec fn inv(self) -> bool { reduced(self.w@) }

    pub closed spec fn view(self) -> Seq<isize> { self.w@ }
}

#[verifier::external_body]
fn mul(lhs: &[isize], rhs: &[isize]) -> (r: Vec<isize>)
    ensures r@ == lhs@ + rhs@
{
    lhs.iter().chain(rhs.iter()).cloned().collect()
}

impl MulAssign<&FreeWord> for FreeWord {
    fn mul_assign(&mut self, rhs: &FreeWord) {
        self.w = mul(&self.w, &rhs.w);
    }
}

impl PartialOrd for FreeWord {
    fn partial_cmp(&self, other: &Self) -> Option<Ordering> {
        Some(self.cmp(&other))
    }
}

impl Ord for FreeWord {
    fn cmp(&self, other: &Self) -> Ordering {
        for i in 0..(self.w.len().min(other.w.len())) {
            let x = self.w[i];
            let y = other.w[i];

            if x != y {
                if x > 0 && y > 0 {
                    return x.cmp(&y);
                } else {
                    return y.cmp(&x);
                }
            }
        }

        self.w.len().cmp(&other.w.len())
    }
}

fn user(a: &FreeWord, b: &FreeWord) -> bool {
    a < b
}

}
fn main() {}
