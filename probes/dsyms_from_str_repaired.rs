use vstd::prelude::*;
use vstd::std_specs::iter::*;
verus! {

// ======== already-verified pieces, here by contract only (see probes/dsets_partialdset_set.rs, dsyms_collect_orbits.rs) ========
struct PartialDSet { size: usize, dim: usize, op: Vec<usize> }
struct SimpleDSet { size: usize, dim: usize, op: Vec<usize>, counter: usize }

impl PartialDSet {
    uninterp spec fn sop(&self, i: int, d: int) -> int;
    spec fn wf(&self) -> bool {
        &&& self.size >= 1 && self.dim >= 1 && self.size < usize::MAX && self.dim < usize::MAX
        &&& forall|i: int, d: int| 0 <= i <= self.dim && 1 <= d <= self.size ==> {
                let e = #[trigger] self.sop(i, d);
                e == 0 || (1 <= e <= self.size && self.sop(i, e) == d)
            }
    }
    spec fn row_complete(&self, i: int) -> bool {
        forall|d: int| 1 <= d <= self.size ==> #[trigger] self.sop(i, d) != 0
    }
    spec fn complete(&self) -> bool {
        forall|i: int, d: int| 0 <= i <= self.dim && 1 <= d <= self.size ==> #[trigger] self.sop(i, d) != 0
    }
    #[verifier::external_body]
    fn new(size: usize, dim: usize) -> (r: PartialDSet)
        requires size >= 1, dim >= 1, size * (dim + 1) <= usize::MAX, size < usize::MAX, dim < usize::MAX
        ensures r.wf(), r.size == size, r.dim == dim,
            forall|i: int, d: int| 0 <= i <= dim && 1 <= d <= size ==> #[trigger] r.sop(i, d) == 0,
    { unimplemented!() }
    #[verifier::external_body]
    fn op_unchecked(&self, i: usize, d: usize) -> (r: usize)
        requires self.wf(), i <= self.dim, 1 <= d <= self.size,
        ensures r == self.sop(i as int, d as int)
    { unimplemented!() }
    #[verifier::external_body]
    fn set(&mut self, i: usize, d: usize, e: usize)
        requires old(self).wf(),
            i <= old(self).dim, 1 <= d <= old(self).size, 1 <= e <= old(self).size,
            old(self).sop(i as int, d as int) == 0 || old(self).sop(i as int, d as int) == e,
            old(self).sop(i as int, e as int) == 0 || old(self).sop(i as int, e as int) == d,
        ensures final(self).wf(), final(self).size == old(self).size, final(self).dim == old(self).dim,
            final(self).sop(i as int, d as int) == e,
            final(self).sop(i as int, e as int) == d,
            forall|j: int, c: int| 0 <= j <= old(self).dim && 1 <= c <= old(self).size && !(j == i && (c == d || c == e))
                ==> final(self).sop(j, c) == old(self).sop(j, c),
    { unimplemented!() }
    fn size(&self) -> (r: usize) ensures r == self.size { self.size }
    fn dim(&self) -> (r: usize) ensures r == self.dim { self.dim }

    // real body (dsets.rs:479) with R10 on the two ranges
    fn is_complete(&self) -> (r: bool)
        requires self.wf()
        ensures r == self.complete()
    {
        let r = (0..(self.dim()) + 1).all(|i: usize| -> (b: bool)
                requires i <= self.dim, self.wf()
                ensures b == self.row_complete(i as int)
            {
                let b = (1..(self.size()) + 1).all(|d: usize| -> (c: bool)
                    requires i <= self.dim, 1 <= d <= self.size, self.wf()
                    ensures c == (self.sop(i as int, d as int) != 0)
                    { self.op_unchecked(i, d) != 0 });
                proof {
                    if b {
                        assert forall|d: int| 1 <= d <= self.size implies #[trigger] self.sop(i as int, d) != 0 by {
                            let rg = 1..((self.size + 1) as usize);
                            assert(IteratorSpec::remaining(&rg)[d - 1] == d);
                        }
                    }
                }
                b
            });
        proof {
            if r {
                assert forall|i: int| 0 <= i <= self.dim implies #[trigger] self.row_complete(i) by {
                    let rg = 0..((self.dim + 1) as usize);
                    assert(IteratorSpec::remaining(&rg)[i] == i);
                }
                assert forall|i: int, d: int| 0 <= i <= self.dim && 1 <= d <= self.size implies #[trigger] self.sop(i, d) != 0 by {
                    assert(self.row_complete(i));
                }
            }
        }
        r
    }
}


// ---------------- SimpleDSet (complete) ----------------
impl SimpleDSet {
    uninterp spec fn sop(&self, i: int, d: int) -> int;
    spec fn wf(&self) -> bool {
        &&& self.size >= 1 && self.dim >= 1 && self.size < usize::MAX && self.dim < usize::MAX
        &&& forall|i: int, d: int| 0 <= i <= self.dim && 1 <= d <= self.size ==> {
                let e = #[trigger] self.sop(i, d);
                1 <= e <= self.size && self.sop(i, e) == d
            }
    }
    // from_partial_unchecked only moves the three fields; its contract is the identity on the table
    #[verifier::external_body]
    fn from_partial_unchecked(ds: PartialDSet, counter: usize) -> (r: SimpleDSet)
        ensures r.size == ds.size, r.dim == ds.dim,
            forall|i: int, d: int| #[trigger] r.sop(i, d) == ds.sop(i, d),
    { unimplemented!() }

    // real body (dsets.rs:507)
    fn from_partial(ds: PartialDSet, counter: usize) -> (r: SimpleDSet)
        requires ds.wf(), ds.complete()
        ensures r.wf(), r.size == ds.size, r.dim == ds.dim,
            forall|i: int, d: int| #[trigger] r.sop(i, d) == ds.sop(i, d),
    {
        assert!(ds.is_complete());
        // TODO add more consistency checks here

        let r = Self::from_partial_unchecked(ds, counter);
        proof {
            assert forall|i: int, d: int| 0 <= i <= r.dim && 1 <= d <= r.size implies ({
                let e = #[trigger] r.sop(i, d);
                1 <= e <= r.size && r.sop(i, e) == d
            }) by {
                assert(ds.sop(i, d) != 0);
            }
        }
        r
    }
    fn size(&self) -> (r: usize) ensures r == self.size { self.size }
    fn dim(&self) -> (r: usize) ensures r == self.dim { self.dim }
}

// contract of collect_orbits as verified in probes/dsyms_collect_orbits.rs
spec fn orb_ok(ds: &SimpleDSet, j: int, oi: Seq<usize>, n: int) -> bool {
    forall|x: int| 1 <= x <= ds.size ==>
        (#[trigger] oi[x]) < n && oi[ds.sop(j, x)] == oi[x] && oi[ds.sop(j + 1, x)] == oi[x]
}

#[verifier::external_body]
fn collect_orbits(ds: &SimpleDSet) -> (res: (Vec<usize>, Vec<bool>, Vec<Vec<usize>>))
    requires ds.wf()
    ensures
        res.0@.len() == res.1@.len(),
        res.2@.len() == ds.dim,
        forall|i: int| 0 <= i < ds.dim ==> (#[trigger] res.2@[i])@.len() == ds.size + 1,
        forall|i: int| 0 <= i < ds.dim ==> orb_ok(ds, i, (#[trigger] res.2@[i])@, res.0@.len() as int),
        forall|k: int| 0 <= k < res.0@.len() ==> #[trigger] res.0@[k] >= 1,
{ unimplemented!() }

// ---------------- PartialDSym ----------------
struct PartialDSym {
    dset: SimpleDSet,
    orbit_index: Vec<Vec<usize>>,
    orbit_rs: Vec<usize>,
    orbit_vs: Vec<usize>,
}

impl PartialDSym {
    spec fn wf(&self) -> bool {
        &&& self.dset.wf()
        &&& self.orbit_index@.len() == self.dset.dim
        &&& forall|i: int| 0 <= i < self.dset.dim ==> (#[trigger] self.orbit_index@[i])@.len() == self.dset.size + 1
        &&& forall|i: int| 0 <= i < self.dset.dim ==> orb_ok(&self.dset, i, (#[trigger] self.orbit_index@[i])@, self.orbit_rs@.len() as int)
        &&& self.orbit_vs@.len() == self.orbit_rs@.len()
        &&& forall|k: int| 0 <= k < self.orbit_rs@.len() ==> #[trigger] self.orbit_rs@[k] >= 1
    }
    spec fn oidx(&self, i: int, d: int) -> int { self.orbit_index@[i]@[d] as int }
    spec fn degrees_ok(&self) -> bool {
        forall|k: int| 0 <= k < self.orbit_rs@.len() ==> #[trigger] self.orbit_rs@[k] * self.orbit_vs@[k] <= usize::MAX
    }

    // real body of `impl From<SimpleDSet> for PartialDSym` (dsyms.rs:252)
    fn from_simple(dset: SimpleDSet) -> (r: Self)
        requires dset.wf()
        ensures r.wf(), r.dset == dset, forall|k: int| 0 <= k < r.orbit_vs@.len() ==> #[trigger] r.orbit_vs@[k] == 0,
    {
        let (orbit_rs, _, orbit_index) = collect_orbits(&dset);
        let orbit_vs = vec![0; orbit_rs.len()];

        PartialDSym { dset, orbit_index, orbit_rs, orbit_vs }
    }

    fn size(&self) -> (r: usize) requires self.wf() ensures r == self.dset.size { self.dset.size() }
    fn dim(&self) -> (r: usize) requires self.wf() ensures r == self.dset.dim { self.dset.dim() }

    // real body (dsyms.rs:186)
    fn set_v(&mut self, i: usize, d: usize, v: usize)
        requires old(self).wf(), i < old(self).dset.dim, 1 <= d <= old(self).dset.size
        ensures final(self).wf(), final(self).dset == old(self).dset, final(self).orbit_index == old(self).orbit_index,
            final(self).orbit_rs == old(self).orbit_rs,
            final(self).orbit_vs@ == old(self).orbit_vs@.update(old(self).oidx(i as int, d as int), v),
    {
        proof { assert(orb_ok(&self.dset, i as int, self.orbit_index@[i as int]@, self.orbit_rs@.len() as int)); }
        assert!(1 <= d);
        self.orbit_vs[self.orbit_index[i][d]] = v;
    }

    // adjacent branch of the real `r` and `v` (dsyms.rs:213, 235), i.e. the part from_str uses
    fn r_adj(&self, i: usize, d: usize) -> (r: usize)
        requires self.wf(), i < self.dset.dim, 1 <= d <= self.dset.size
        ensures r == self.orbit_rs@[self.oidx(i as int, d as int)], r >= 1
    {
        proof { assert(orb_ok(&self.dset, i as int, self.orbit_index@[i as int]@, self.orbit_rs@.len() as int)); }
        self.orbit_rs[self.orbit_index[i][d]]
    }
    fn v_adj(&self, i: usize, d: usize) -> (r: usize)
        requires self.wf(), i < self.dset.dim, 1 <= d <= self.dset.size
        ensures r == self.orbit_vs@[self.oidx(i as int, d as int)]
    {
        proof { assert(orb_ok(&self.dset, i as int, self.orbit_index@[i as int]@, self.orbit_rs@.len() as int)); }
        self.orbit_vs[self.orbit_index[i][d]]
    }
}

// ---------------- parser result (nom is external: any values whatsoever) ----------------
struct DSymSpec {
    set_count: usize,
    sym_count: usize,
    size: usize,
    dim: usize,
    op_spec: Vec<Vec<usize>>,
    m_spec: Vec<Vec<usize>>
}

#[verifier::external_body]
fn parse_dsymbol(input: &str) -> (r: Result<(&str, DSymSpec), String>)
{ unimplemented!() }

// ---------------- the REPAIRED from_str (dsyms.rs:276) ----------------
#[verifier::exec_allows_no_decreases_clause]
fn from_str(s: &str) -> (res: Result<PartialDSym, String>)
    ensures res.is_ok() ==> res.unwrap().wf()
{
    let (_, spec) = parse_dsymbol(s)?;

    if spec.size < 1 {
        Err("size must be at least 1".into())
    } else if spec.dim < 1 {
        Err("dimension must be at least 1".into())
    } else if spec.dim == usize::MAX || spec.op_spec.len() != spec.dim + 1 {
        Err("incorrect dimension for op specifications".into())
    } else if spec.m_spec.len() != spec.dim as usize {
        Err("incorrect dimension for degree specifications".into())
    } else if spec.size == usize::MAX || spec.size.checked_mul(spec.dim + 1).is_none() {
        Err("size too large".into())
    } else {
        let mut dset = PartialDSet::new(spec.size, spec.dim);

        for i in 0..(spec.dim) + 1
            invariant
                dset.wf(), dset.size == spec.size, dset.dim == spec.dim,
                spec.op_spec@.len() == spec.dim + 1, spec.dim < usize::MAX, spec.size < usize::MAX,
                forall|j: int, d: int| 0 <= j < i && 1 <= d <= spec.size ==> #[trigger] dset.sop(j, d) != 0,
                forall|j: int, d: int| i <= j <= spec.dim && 1 <= d <= spec.size ==> #[trigger] dset.sop(j, d) == 0,
        {
            let op_i = spec.op_spec.get(i).unwrap();
            let mut k = 0;

            for d in 1..(spec.size) + 1
                invariant
                    dset.wf(), dset.size == spec.size, dset.dim == spec.dim, i <= spec.dim,
                    spec.op_spec@.len() == spec.dim + 1, spec.dim < usize::MAX, spec.size < usize::MAX,
                    k <= op_i.len(),
                    forall|j: int, c: int| 0 <= j < i && 1 <= c <= spec.size ==> #[trigger] dset.sop(j, c) != 0,
                    forall|j: int, c: int| i < j <= spec.dim && 1 <= c <= spec.size ==> #[trigger] dset.sop(j, c) == 0,
                    forall|c: int| 1 <= c < d ==> #[trigger] dset.sop(i as int, c) != 0,
            {
                if dset.op_unchecked(i, d) == 0 {
                    let di = *op_i.get(k)
                        .ok_or("incomplete op spec".to_string())?;
                    if di < 1 || di > spec.size || dset.op_unchecked(i, di) != 0 {
                        return Err("illegal op value".into());
                    }
                    let ghost before = dset;
                    dset.set(i, d, di);
                    k += 1;
                    proof {
                        assert forall|j: int, c: int| 0 <= j < i && 1 <= c <= spec.size implies #[trigger] dset.sop(j, c) != 0 by {
                            assert(dset.sop(j, c) == before.sop(j, c));
                        }
                        assert forall|j: int, c: int| i < j <= spec.dim && 1 <= c <= spec.size implies #[trigger] dset.sop(j, c) == 0 by {
                            assert(dset.sop(j, c) == before.sop(j, c));
                        }
                        assert forall|c: int| 1 <= c < d + 1 implies #[trigger] dset.sop(i as int, c) != 0 by {
                            if c != d && c != di { assert(dset.sop(i as int, c) == before.sop(i as int, c)); }
                        }
                    }
                }
            }

            if k < op_i.len() {
                return Err("unused data in op spec".into());
            }
        }

        proof { assert(dset.complete()); }
        let mut dsym = PartialDSym::from_simple(SimpleDSet::from_partial(dset, 1));

        for i in 0..spec.dim
            invariant dsym.wf(), dsym.dset.dim == spec.dim, dsym.dset.size == spec.size,
                spec.m_spec@.len() == spec.dim, spec.size < usize::MAX,
        {
            let ms_i = spec.m_spec.get(i).unwrap();
            let mut k = 0;

            for d in 1..(spec.size) + 1
                invariant dsym.wf(), dsym.dset.dim == spec.dim, dsym.dset.size == spec.size, i < spec.dim,
                    k <= ms_i.len(), spec.size < usize::MAX,
            {
                if dsym.v_adj(i, d) == 0 {
                    let m = *ms_i.get(k)
                        .ok_or("incomplete degree spec".to_string())?;
                    let r = dsym.r_adj(i, d);
                    if m % r != 0 {
                        return Err("illegal degree value".into());
                    }
                    dsym.set_v(i, d, m / r);
                    k += 1;
                }
            }

            if k < ms_i.len() {
                return Err("unused data in degree spec".into());
            }
        }

        Ok(dsym)
    }
}

}
fn main() {}
