use vstd::prelude::*;
use vstd::std_specs::cmp::*;
use std::cmp::Ordering;
verus! {
pub struct FreeWord { pub w: Vec<isize> }

pub uninterp spec fn word_cmp(a: Seq<isize>, b: Seq<isize>) -> Ordering;
pub uninterp spec fn reduce(s: Seq<isize>) -> Seq<isize>;
pub open spec fn rot(s: Seq<isize>, k: int) -> Seq<isize> { reduce(s.skip(k) + s.take(k)) }
pub uninterp spec fn inv_seq(s: Seq<isize>) -> Seq<isize>;
pub open spec fn lt(a: Seq<isize>, b: Seq<isize>) -> bool { word_cmp(a, b) == Ordering::Less }

// order facts proved in probes/free_words_cmp_order.rs
#[verifier::external_body]
pub proof fn lemma_order(a: Seq<isize>, b: Seq<isize>, c: Seq<isize>)
    ensures !lt(a, a), lt(a, b) && lt(b, c) ==> lt(a, c), !lt(a, b) && !lt(b, a) ==> a == b
{}

pub proof fn lemma_asym(a: Seq<isize>, b: Seq<isize>)
    ensures lt(a, b) ==> !lt(b, a)
{ lemma_order(a, b, a); lemma_order(a, a, a); }

impl PartialEqSpecImpl for FreeWord {
    open spec fn obeys_eq_spec() -> bool { false }
    open spec fn eq_spec(&self, other: &FreeWord) -> bool { self.w@ == other.w@ }
}
impl PartialEq for FreeWord { #[verifier::external_body] fn eq(&self, other: &Self) -> bool { unimplemented!() } }
impl Eq for FreeWord {}
impl PartialOrdSpecImpl for FreeWord {
    open spec fn obeys_partial_cmp_spec() -> bool { true }
    open spec fn partial_cmp_spec(&self, other: &FreeWord) -> Option<Ordering> { Some(word_cmp(self.w@, other.w@)) }
}
impl PartialOrd for FreeWord { #[verifier::external_body] fn partial_cmp(&self, other: &Self) -> (r: Option<Ordering>) { unimplemented!() } }
impl OrdSpecImpl for FreeWord {
    open spec fn obeys_cmp_spec() -> bool { true }
    open spec fn cmp_spec(&self, other: &FreeWord) -> Ordering { word_cmp(self.w@, other.w@) }
}
impl Ord for FreeWord { #[verifier::external_body] fn cmp(&self, other: &Self) -> (r: Ordering) { unimplemented!() } }

impl FreeWord {
    pub open spec fn view(&self) -> Seq<isize> { self.w@ }
    #[verifier::external_body]
    pub fn clone(&self) -> (r: Self) ensures r@ == self@ { unimplemented!() }
    // assumed (R5): rotated; verified elsewhere: inverse
    #[verifier::external_body]
    pub fn rotated(&self, i: isize) -> (r: Self) requires self@.len() > 0, 0 <= i < self@.len() ensures r@ == rot(self@, i as int) { unimplemented!() }
    #[verifier::external_body]
    pub fn inverse(&self) -> (r: Self) ensures r@ == inv_seq(self@) { unimplemented!() }
}

// candidate set: all rotations and their inverses
pub open spec fn is_perm(fw: Seq<isize>, u: Seq<isize>) -> bool {
    exists|k: int| 0 <= k < fw.len() && (#[trigger] rot(fw, k) == u || inv_seq(rot(fw, k)) == u)
}

// real body (free_words.rs:198)
pub fn relator_representative(fw: &FreeWord) -> (best: FreeWord)
    requires fw@.len() <= isize::MAX
    ensures
        fw@.len() == 0 ==> best@ == fw@,
        fw@.len() > 0 ==> (best@ == fw@ || is_perm(fw@, best@)),
        forall|k: int| 0 <= k < fw@.len() ==> !lt(#[trigger] rot(fw@, k), best@) && !lt(inv_seq(rot(fw@, k)), best@),
        !lt(fw@, best@),
{
    if fw.w.len() == 0 {
        proof { lemma_order(fw@, fw@, fw@); }
        fw.clone()
    } else {
        let mut best = fw.clone();
        proof { lemma_order(fw@, fw@, fw@); }

        for i in 0..fw.w.len()
            invariant
                fw@.len() > 0, fw@.len() <= isize::MAX,
                best@ == fw@ || is_perm(fw@, best@),
                !lt(fw@, best@),
                forall|k: int| 0 <= k < i ==> !lt(#[trigger] rot(fw@, k), best@) && !lt(inv_seq(rot(fw@, k)), best@),
        {
            let ghost b0 = best@;
            let w = fw.rotated(i as isize);
            let winv = w.inverse();
            if winv < best {
                best = winv;
            }
            if w < best {
                best = w;
            }
            proof {
                let r = rot(fw@, i as int);
                // best@ is the minimum of {b0, r, inv r}
                lemma_asym(best@, b0); lemma_asym(b0, best@);
                lemma_asym(best@, r); lemma_asym(r, best@);
                lemma_asym(best@, inv_seq(r)); lemma_asym(inv_seq(r), best@);
                lemma_asym(inv_seq(r), b0); lemma_asym(r, inv_seq(r));
                lemma_order(r, inv_seq(r), b0);
                lemma_order(r, best@, b0);
                lemma_order(inv_seq(r), best@, b0);
                lemma_order(best@, b0, b0);
                lemma_order(inv_seq(r), r, best@);
                lemma_order(r, inv_seq(r), best@);
                assert(!lt(r, best@));
                assert(!lt(inv_seq(r), best@));
                assert(!lt(b0, best@));
                assert forall|k: int| 0 <= k < i + 1 implies !lt(#[trigger] rot(fw@, k), best@) && !lt(inv_seq(rot(fw@, k)), best@) by {
                    if k < i {
                        lemma_order(rot(fw@, k), best@, b0);
                        lemma_order(inv_seq(rot(fw@, k)), best@, b0);
                    }
                }
                lemma_order(fw@, best@, b0);
                if best@ != b0 { assert(rot(fw@, i as int) == best@ || inv_seq(rot(fw@, i as int)) == best@); }
            }
        }
        best
    }
}
}
fn main() {}
