// Falsifier / replay program.  It NEVER decides anything: when a deductive obligation fails, check.py compiles this file as an
// example of the CURRENT /repo working tree (scratch copy) and runs it for the property concerned, purely to attach a concrete
// failing input to the report.  It executes the executable form of the property's postconditions on the real public API over
// a small stated domain and prints one line per discrepancy:
//
//     FALSIFIED <tag> :: <input> :: <observed vs expected>
//
// If it prints nothing the VIOLATION line ends with `no-failing-input-found`, as the brief prescribes.
// usage: cargo run --offline --example zz_falsify -- <PROPERTY-ID>
#![allow(dead_code, unused_imports, unused_variables)]
use std::collections::{BTreeMap, BTreeSet, HashSet};
use std::panic::{catch_unwind, AssertUnwindSafe};

use rust_dsymbols::derived::*;
use rust_dsymbols::dsets::*;
use rust_dsymbols::dsyms::*;
use rust_dsymbols::fpgroups::cosets::*;
use rust_dsymbols::fpgroups::free_words::*;
use rust_dsymbols::geometry::prime_residue_classes::PrimeResidueClass;
use rust_dsymbols::geometry::vec_matrix::VecMatrix;
use rust_dsymbols::util::partitions::{IntPartition, Partition};

static mut COUNT: usize = 0;
fn falsified(tag: &str, input: String, what: String) {
    unsafe {
        COUNT += 1;
        if COUNT <= 40 {
            println!("FALSIFIED {} :: {} :: {}", tag, input, what);
        }
    }
}

// watchdog: the call announced by `watch` must return within WATCH_LIMIT seconds; a call that does not (e.g. a union-find forest with
// a cycle makes `find` spin) is reported as a discrepancy with its input and the sweep stops.  On the unchanged tree every announced
// call takes milliseconds.
const WATCH_LIMIT: u64 = 30;
static CURRENT: std::sync::Mutex<Option<(String, String, std::time::Instant)>> = std::sync::Mutex::new(None);
fn watch(tag: &str, input: String) { *CURRENT.lock().unwrap() = Some((tag.to_string(), input, std::time::Instant::now())); }
fn unwatch() { *CURRENT.lock().unwrap() = None; }
fn current_input() -> String { CURRENT.lock().unwrap().as_ref().map(|c| c.1.clone()).unwrap_or_default() }
fn start_watchdog() {
    std::thread::spawn(|| loop {
        std::thread::sleep(std::time::Duration::from_millis(500));
        let cur = CURRENT.lock().unwrap().clone();
        if let Some((tag, input, t0)) = cur {
            if t0.elapsed().as_secs() >= WATCH_LIMIT {
                println!("FALSIFIED {} :: {} :: the call did not return within {} s (non-termination)", tag, input, WATCH_LIMIT);
                println!("falsifier stopped by its watchdog");
                std::process::exit(3);
            }
        }
    });
}

struct Rng(u64);
impl Rng {
    fn next(&mut self) -> u64 {
        self.0 = self.0.wrapping_mul(6364136223846793005).wrapping_add(1442695040888963407);
        self.0 >> 33
    }
    fn below(&mut self, n: usize) -> usize { (self.next() % n as u64) as usize }
}

fn quiet<F: FnOnce() -> R, R>(f: F) -> Result<R, String> {
    catch_unwind(AssertUnwindSafe(f)).map_err(|e| {
        if let Some(s) = e.downcast_ref::<String>() { s.clone() } else if let Some(s) = e.downcast_ref::<&str>() { s.to_string() } else { "panic".to_string() }
    })
}

// ------------------------------------------------------------------------------------------------ C10
fn reduce(w: &[isize]) -> Vec<isize> {
    let mut b: Vec<isize> = vec![];
    for &x in w {
        if b.last().map_or(false, |&y| x == -y) { b.pop(); } else if x != 0 { b.push(x); }
    }
    b
}
fn letters(w: &FreeWord) -> Vec<isize> { w.iter().cloned().collect() }
fn is_reduced(w: &[isize]) -> bool { w.iter().all(|&x| x != 0) && w.windows(2).all(|p| p[0] != -p[1]) }
fn all_words(gens: isize, maxlen: usize) -> Vec<Vec<isize>> {
    let mut alphabet = vec![];
    for g in 1..=gens { alphabet.push(g); alphabet.push(-g); }
    let mut out = vec![vec![]];
    let mut layer: Vec<Vec<isize>> = vec![vec![]];
    for _ in 0..maxlen {
        let mut next = vec![];
        for w in &layer { for &a in &alphabet { let mut v = w.clone(); v.push(a); next.push(v); } }
        out.extend(next.iter().cloned());
        layer = next;
    }
    out
}
fn key(x: isize) -> (bool, isize) { (x < 0, x.abs()) }
fn word_lt(a: &[isize], b: &[isize]) -> bool {
    for i in 0..a.len().min(b.len()) { if a[i] != b[i] { return key(a[i]) < key(b[i]); } }
    a.len() < b.len()
}
fn check_c10() {
    let raw = all_words(2, 5);
    let mut words: Vec<FreeWord> = vec![];
    for r in &raw {
        match quiet(|| FreeWord::new(r.clone())) {
            Ok(w) => {
                if letters(&w) != reduce(r) { falsified("FreeWord::new", format!("{:?}", r), format!("{:?} expected {:?}", letters(&w), reduce(r))); }
                if is_reduced(r) { words.push(w); }
            }
            Err(e) => falsified("FreeWord::new", format!("{:?}", r), format!("panic {}", e)),
        }
    }
    // unary operations on every reduced word
    for w in &words {
        let lw = letters(w);
        let inv: Vec<isize> = lw.iter().rev().map(|x| -x).collect();
        match quiet(|| w.inverse()) {
            Ok(i) => if letters(&i) != inv { falsified("FreeWord::inverse", format!("{:?}", lw), format!("{:?} expected {:?}", letters(&i), inv)); },
            Err(e) => falsified("FreeWord::inverse", format!("{:?}", lw), format!("panic {}", e)),
        }
        for k in -3isize..=6 {
            match quiet(|| w.rotated(k)) {
                Ok(r) => {
                    let n = lw.len() as isize;
                    let exp = if n == 0 { vec![] } else { let s = k.rem_euclid(n) as usize; reduce(&[&lw[s..], &lw[..s]].concat()) };
                    if letters(&r) != exp { falsified("FreeWord::rotated", format!("{:?}.rotated({})", lw, k), format!("{:?} expected {:?}", letters(&r), exp)); }
                }
                Err(e) => falsified("FreeWord::rotated", format!("{:?}.rotated({})", lw, k), format!("panic {}", e)),
            }
        }
        for m in -3isize..=3 {
            match quiet(|| w.raised_to(m)) {
                Ok(r) => {
                    let base = if m < 0 { inv.clone() } else { lw.clone() };
                    let mut acc: Vec<isize> = vec![];
                    for _ in 0..m.abs() { acc = reduce(&[acc, base.clone()].concat()); }
                    if letters(&r) != acc { falsified("FreeWord::raised_to", format!("{:?}^{}", lw, m), format!("{:?} expected {:?}", letters(&r), acc)); }
                }
                Err(e) => falsified("FreeWord::raised_to", format!("{:?}^{}", lw, m), format!("panic {}", e)),
            }
        }
        // relator representative / permutations
        if let Ok(rep) = quiet(|| relator_representative(w)) {
            let mut cands: Vec<Vec<isize>> = vec![];
            for s in 0..lw.len() {
                let r = reduce(&[&lw[s..], &lw[..s]].concat());
                cands.push(r.iter().rev().map(|x| -x).collect());
                cands.push(r);
            }
            if lw.is_empty() { cands.push(vec![]); }
            let lr = letters(&rep);
            if !(cands.contains(&lr) || lr == lw) { falsified("relator_representative", format!("{:?}", lw), format!("{:?} is not a rotation / inverse rotation", lr)); }
            for c in &cands { if word_lt(c, &lr) { falsified("relator_representative", format!("{:?}", lw), format!("{:?} but candidate {:?} is smaller", lr, c)); break; } }
            if let Ok(perms) = quiet(|| relator_permutations(w)) {
                let got: BTreeSet<Vec<isize>> = perms.iter().map(letters).collect();
                let exp: BTreeSet<Vec<isize>> = cands.iter().cloned().collect();
                if got != exp { falsified("relator_permutations", format!("{:?}", lw), format!("{:?} expected {:?}", got, exp)); }
            }
        } else { falsified("relator_representative", format!("{:?}", lw), "panic".into()); }
    }
    // binary operations on all pairs of words of length <= 3
    let small: Vec<&FreeWord> = words.iter().filter(|w| w.len() <= 3).collect();
    for a in &small { for b in &small {
        let (la, lb) = (letters(a), letters(b));
        let exp = reduce(&[la.clone(), lb.clone()].concat());
        let forms: Vec<(&str, Result<FreeWord, String>)> = vec![
            ("&a * &b", quiet(|| *a * *b)), ("&a * b", quiet(|| *a * (*b).clone())),
            ("a * &b", quiet(|| (*a).clone() * *b)), ("a * b", quiet(|| (*a).clone() * (*b).clone())),
            ("a *= &b", quiet(|| { let mut x = (*a).clone(); x *= *b; x })),
        ];
        for (name, r) in forms {
            let tag = if name.contains("*=") { "MulAssign::mul_assign (in-place product)" } else { "Mul::mul (product)" };
            match r {
                Ok(p) => if letters(&p) != exp { falsified(tag, format!("{} with a={:?} b={:?}", name, la, lb), format!("{:?} expected {:?}", letters(&p), exp)); },
                Err(e) => falsified(tag, format!("{} with a={:?} b={:?}", name, la, lb), format!("panic {}", e)),
            }
        }
        if let Ok(c) = quiet(|| a.commutator(b)) {
            let ia: Vec<isize> = la.iter().rev().map(|x| -x).collect();
            let ib: Vec<isize> = lb.iter().rev().map(|x| -x).collect();
            let e = reduce(&[la.clone(), lb.clone(), ia, ib].concat());
            if letters(&c) != e { falsified("FreeWord::commutator", format!("a={:?} b={:?}", la, lb), format!("{:?} expected {:?}", letters(&c), e)); }
        }
        // order: strict, total, compatible with equality
        let (lt, gt, eq) = (*a < *b, *a > *b, *a == *b);
        if (lt as u8 + gt as u8 + eq as u8) != 1 || eq != (la == lb) || lt != word_lt(&la, &lb) {
            falsified("FreeWord::cmp", format!("a={:?} b={:?}", la, lb), format!("lt={} gt={} eq={} expected lt={}", lt, gt, eq, word_lt(&la, &lb)));
        }
    } }
    // word times letter, both operand forms, the null letter 0 and a third generator included
    for g in [-3isize, -2, -1, 0, 1, 2, 3] { for a in &small {
        let la = letters(a);
        let exp = reduce(&[la.clone(), vec![g]].concat());
        for (name, r) in [("&a * g", quiet(|| *a * g)), ("a * g", quiet(|| (*a).clone() * g))] {
            match r {
                Ok(p) => if letters(&p) != exp { falsified("Mul::mul (word times letter)", format!("{} with a={:?} g={}", name, la, g), format!("{:?} expected {:?}", letters(&p), exp)); },
                Err(e) => falsified("Mul::mul (word times letter)", format!("{} with a={:?} g={}", name, la, g), format!("panic {}", e)),
            }
        }
    } }
}

// ------------------------------------------------------------------------------------------------ C20
fn check_c20() {
    let mut rng = Rng(12345);
    for trial in 0..1500 {
      let rng = &mut rng;
      let r = quiet(move || {
        let n = 2 + rng.below(6);
        let mut p = IntPartition::new();
        let mut q: Partition<usize> = Partition::new();
        let mut model: Vec<usize> = (0..n).collect();      // class label per element
        let mut hist = vec![];
        let mut clone_at: Option<(IntPartition, Partition<usize>, Vec<usize>)> = None;
        let steps = 1 + rng.below(12);
        for _ in 0..steps {
            let (a, b) = (rng.below(n), rng.below(n));
            match rng.below(5) {
                0 | 1 => {
                    hist.push(format!("unite({},{})", a, b));
                    watch("IntPartition / Partition history", format!("{:?}", hist));
                    p.unite(a, b); q.unite(&a, &b);
                    let (la, lb) = (model[a], model[b]);
                    for x in model.iter_mut() { if *x == lb { *x = la; } }
                }
                2 => { hist.push(format!("find({})", a)); watch("IntPartition / Partition history", format!("{:?}", hist)); let _ = p.find(a); let _ = q.find(&a); }
                3 => { hist.push("clone".into()); watch("IntPartition / Partition history", format!("{:?}", hist)); clone_at = Some((p.clone(), q.clone(), model.clone())); }
                _ => {
                    hist.push("classes".into());
                    watch("IntPartition / Partition history", format!("{:?}", hist));
                    // a random subset of the universe in random order (possibly with repeats)
                    let cnt = 1 + rng.below(n + 1);
                    let elms: Vec<usize> = (0..cnt).map(|_| rng.below(n)).collect();
                    let mut exp: Vec<Vec<usize>> = vec![];
                    for &e in &elms { if let Some(c) = exp.iter_mut().find(|c| model[c[0]] == model[e]) { c.push(e); } else { exp.push(vec![e]); } }
                    let got = p.classes(&elms);
                    if got != exp { falsified("IntPartition::classes", format!("{:?} then classes({:?})", hist, elms), format!("{:?} expected {:?}", got, exp)); }
                    let got2 = q.classes(&elms);
                    if got2 != exp { falsified("Partition::classes", format!("{:?} then classes({:?})", hist, elms), format!("{:?} expected {:?}", got2, exp)); }
                }
            }
            for x in 0..n { for y in 0..n {
                let same = p.find(x) == p.find(y);
                if same != (model[x] == model[y]) { falsified("IntPartition::find", format!("{:?}", hist), format!("find({})==find({}) is {} expected {}", x, y, same, model[x] == model[y])); }
                let same2 = q.find(&x) == q.find(&y);
                if same2 != (model[x] == model[y]) { falsified("Partition::find", format!("{:?}", hist), format!("find({})==find({}) is {} expected {}", x, y, same2, model[x] == model[y])); }
            } let r = p.find(x); if model[r] != model[x] || p.find(r) != r { falsified("IntPartition::find", format!("{:?}", hist), format!("representative {} of {} is not a fixed member of its class", r, x)); } }
        }
        if let Some((pc, qc, mc)) = clone_at {
            watch("IntPartition / Partition history", format!("{:?} then find on the clone", hist));
            for x in 0..n { for y in 0..n {
                if (pc.find(x) == pc.find(y)) != (mc[x] == mc[y]) { falsified("IntPartition::clone", format!("{:?}", hist), format!("clone changed with its original at ({},{})", x, y)); }
                if (qc.find(&x) == qc.find(&y)) != (mc[x] == mc[y]) { falsified("Partition::clone", format!("{:?}", hist), format!("clone changed with its original at ({},{})", x, y)); }
            } }
        }
      });
      if let Err(e) = r { falsified("IntPartition / Partition history", current_input(), format!("panic {}", e)); }
      unwatch();
    }
}

fn check_c20_unions() {
    // union-heavy sequences (no finds in between, so trees keep their shape and ranks differ): checked at the end only
    let mut rng = Rng(777);
    for trial in 0..30000 {
      let rng = &mut rng;
      let r = quiet(move || {
        let n = 4 + rng.below(6);
        let mut p = IntPartition::new();
        let mut q: Partition<usize> = Partition::new();
        let mut model: Vec<usize> = (0..n).collect();
        let mut hist = vec![];
        for _ in 0..(2 + rng.below(9)) {
            let (a, b) = (rng.below(n), rng.below(n));
            hist.push((a, b));
            watch("IntPartition / Partition unions", format!("unions {:?} then find on every element", hist));
            p.unite(a, b); q.unite(&a, &b);
            let (la, lb) = (model[a], model[b]);
            for x in model.iter_mut() { if *x == lb { *x = la; } }
        }
        for x in 0..n { for y in 0..x {
            if (p.find(x) == p.find(y)) != (model[x] == model[y]) { falsified("IntPartition::unite / find", format!("unions {:?}", hist), format!("find({})==find({}) is {} expected {}", x, y, p.find(x) == p.find(y), model[x] == model[y])); }
            if (q.find(&x) == q.find(&y)) != (model[x] == model[y]) { falsified("Partition::unite / find", format!("unions {:?}", hist), format!("find({})==find({}) is {} expected {}", x, y, q.find(&x) == q.find(&y), model[x] == model[y])); }
        } }
      });
      if let Err(e) = r { falsified("IntPartition / Partition unions", current_input(), format!("panic {}", e)); }
      unwatch();
    }
}

// ------------------------------------------------------------------------------------------------ C18
fn check_prc<const P: i64>() {
    let mut vals: Vec<i64> = vec![0, 1, -1, P, -P, P - 1, 1 - P, P + 1, -P - 1, 2 * P, -2 * P, i64::MAX, i64::MIN, i64::MIN + 1, 7 * P, -7 * P, -864691128455135216];
    let mut rng = Rng(7);
    for _ in 0..200 { vals.push(rng.next() as i64 * if rng.below(2) == 0 { 1 } else { -1 }); }
    let mut classes = vec![];
    for &n in &vals {
        match quiet(|| PrimeResidueClass::<P>::from(n)) {
            Ok(r) => {
                let v: i64 = r.into();
                let exp = (n as i128).rem_euclid(P as i128) as i64;
                if v != exp { falsified("PrimeResidueClass::from", format!("P={} n={}", P, n), format!("value {} expected {}", v, exp)); }
                classes.push((exp, r));
            }
            Err(e) => falsified("PrimeResidueClass::from", format!("P={} n={}", P, n), format!("panic {}", e)),
        }
    }
    for &(a, ca) in classes.iter().take(40) { for &(b, cb) in classes.iter().take(40) {
        let chk = |tag: &str, got: Result<PrimeResidueClass<P>, String>, exp: i128| match got {
            Ok(g) => { let v: i64 = g.into(); if v as i128 != exp.rem_euclid(P as i128) { falsified(tag, format!("P={} a={} b={}", P, a, b), format!("{} expected {}", v, exp.rem_euclid(P as i128))); } }
            Err(e) => falsified(tag, format!("P={} a={} b={}", P, a, b), format!("panic {}", e)),
        };
        chk("PrimeResidueClass add", quiet(|| ca + cb), a as i128 + b as i128);
        chk("PrimeResidueClass sub", quiet(|| ca - cb), a as i128 - b as i128);
        chk("PrimeResidueClass mul", quiet(|| ca * cb), a as i128 * b as i128);
        chk("PrimeResidueClass neg", quiet(|| -ca), -(a as i128));
        if b != 0 {
            match quiet(|| ca / cb) {
                Ok(qv) => { let v: i64 = qv.into(); if (v as i128 * b as i128).rem_euclid(P as i128) != a as i128 { falsified("PrimeResidueClass div", format!("P={} a={} b={}", P, a, b), format!("quotient {} times b is not a", v)); } }
                Err(e) => falsified("PrimeResidueClass div", format!("P={} a={} b={}", P, a, b), format!("panic {}", e)),
            }
        }
    } }
}
// exact rank over the rationals: fraction-free elimination on i128 (entries are tiny)
fn exact_rank(m: &Vec<Vec<i64>>) -> usize {
    let mut a: Vec<Vec<i128>> = m.iter().map(|r| r.iter().map(|&x| x as i128).collect()).collect();
    let (rows, cols) = (a.len(), if a.is_empty() { 0 } else { a[0].len() });
    let mut rank = 0;
    for c in 0..cols {
        if rank >= rows { break; }
        if let Some(p) = (rank..rows).find(|&r| a[r][c] != 0) {
            a.swap(p, rank);
            for r in (rank + 1)..rows { if a[r][c] != 0 { let (x, y) = (a[rank][c], a[r][c]); for k in 0..cols { a[r][k] = a[r][k] * x - a[rank][k] * y; } } }
            rank += 1;
        }
    }
    rank
}
// "a canonical representative for EVERY integer input": big integers (beyond 64 bits, both signs, multiples of P) through From<BigInt>
fn check_prc_big<const P: i64>() {
    use num_bigint::BigInt; use num_traits::{Zero, ToPrimitive};
    let p = BigInt::from(P);
    let ten = BigInt::from(10);
    let mut vals: Vec<BigInt> = vec![BigInt::zero(), BigInt::from(1), BigInt::from(-1), BigInt::from(i64::MAX), BigInt::from(i64::MIN), BigInt::from(i64::MAX) + 1, BigInt::from(i64::MIN) - 1];
    for e in [19u32, 25, 40] { let t = ten.pow(e); vals.push(t.clone()); vals.push(-t.clone()); vals.push(&t * &p); vals.push(-(&t * &p)); vals.push(&t * &p + 7); }
    for n in vals {
        let exp = { let r = &n % &p; let r = if r < BigInt::zero() { r + &p } else { r }; r.to_i64().unwrap() };
        let txt = format!("P={} n={}", P, n);
        match quiet(|| { let c: PrimeResidueClass<P> = n.clone().into(); let v: i64 = c.into(); v }) {
            Ok(v) => if v != exp { falsified("PrimeResidueClass::from(BigInt)", txt, format!("value {} expected {}", v, exp)); },
            Err(e) => falsified("PrimeResidueClass::from(BigInt)", txt, format!("panic {}", e)),
        }
    }
}
fn check_c18() {
    check_prc::<2>(); check_prc::<3>(); check_prc::<61>(); check_prc::<3037000493>();
    check_prc_big::<2>(); check_prc_big::<61>(); check_prc_big::<3037000493>();
    // shapes: rank never panics and is <= min(rows, cols)
    let mut rng = Rng(99);
    for rows in 1..=4usize { for cols in 1..=5usize { for _ in 0..30 {
        let data: Vec<Vec<i64>> = (0..rows).map(|_| (0..cols).map(|_| rng.below(7) as i64 - 3).collect()).collect();
        let r = quiet(|| {
            let mut m = VecMatrix::<i64>::new(rows, cols);
            for i in 0..rows { for j in 0..cols { m[(i, j)] = data[i][j]; } }
            m.rank()
        });
        match r {
            Ok(k) => { if k > rows.min(cols) { falsified("VecMatrix::rank / RowEchelonVecMatrix::new", format!("{:?}", data), format!("rank {} > min(rows, cols)", k)); }
                       let exact = exact_rank(&data); if k != exact { falsified("VecMatrix::rank / RowEchelonVecMatrix::new", format!("{:?}", data), format!("rank {} but the exact rank over the rationals is {}", k, exact)); } },
            Err(e) => falsified("RowEchelonVecMatrix::new", format!("{:?}", data), format!("panic {}", e)),
        }
    } } }
}

// ------------------------------------------------------------------------------------------------ D-symbol corpus
fn random_dsym(rng: &mut Rng, size: usize, dim: usize) -> Option<PartialDSym> {
    let mut ds = PartialDSet::new(size, dim);
    for i in 0..=dim {
        let mut free: Vec<usize> = (1..=size).collect();
        while !free.is_empty() {
            let d = free.remove(0);
            if free.is_empty() || rng.below(4) == 0 { ds.set(i, d, d); } else { let k = rng.below(free.len()); let e = free.remove(k); ds.set(i, d, e); }
        }
    }
    let mut sym: PartialDSym = ds.into();
    for i in 0..dim { for d in 1..=size { if sym.v(i, i + 1, d) == Some(0) { sym.set_v(i, d, 1 + rng.below(3)); } } }
    Some(sym)
}
fn corpus() -> Vec<PartialDSym> {
    let mut out = vec![];
    for s in ["<1.1:1:1,1,1:3,3>", "<1.1:1:1,1,1:4,4>", "<1.1:1:1,1,1:3,6>", "<1.1:2:2,1 2,1 2:6,4>", "<1.1:2 3:2,1 2,1 2,2:6,3 2,6>",
              "<1.1:3:1 2 3,1 3,2 3:6 4,3>", "<1.1:6:2 4 6,6 3 5,2 4 6:3,3>", "<1.1:2:1 2,1 2,2:3 6,4>"] {
        if let Ok(ds) = s.parse::<PartialDSym>() { out.push(ds); }
    }
    let mut rng = Rng(2024);
    for size in 1..=5 { for dim in 1..=3 { for _ in 0..12 { if let Ok(Some(s)) = quiet(|| random_dsym(&mut rng, size, dim)) { out.push(s); } } } }
    for size in 6..=8 { for dim in 1..=3 { for _ in 0..20 { if let Ok(Some(s)) = quiet(|| random_dsym(&mut rng, size, dim)) { out.push(s); } } } }
    out
}
fn orbit_len<T: DSet>(ds: &T, i: usize, j: usize, d: usize) -> Option<usize> {
    let mut e = d; let mut k = 0;
    loop { e = ds.op(j, ds.op(i, e)?)?; k += 1; if e == d { return Some(k); } if k > 4 * ds.size() { return None; } }
}
fn check_c02() {
    for ds in corpus() {
        let txt = format!("{}", ds);
        let complete = ds.is_complete();
        let simple: Option<SimpleDSym> = if complete { quiet(|| SimpleDSym::from(ds.clone())).ok() } else { None };
        let (n, dim) = (ds.size(), ds.dim());
        for i in 0..=dim + 2 { for d in 0..=n + 1 {
            let a = quiet(|| ds.op(i, d));
            match a { Err(e) => falsified("PartialDSym::op", format!("{} op({},{})", txt, i, d), format!("panic {}", e)),
                Ok(r) => { let inr = i <= dim && d >= 1 && d <= n; if !inr && r.is_some() { falsified("DSet::op", format!("{} op({},{})", txt, i, d), format!("{:?} for out-of-range arguments", r)); }
                           if let Some(e) = r { if e < 1 || e > n || ds.op(i, e) != Some(d) { falsified("DSet::op", format!("{} op({},{})", txt, i, d), format!("{} is not an involution partner", e)); } } } }
            for j in 0..=dim + 2 {
                let pr = quiet(|| (ds.r(i, j, d), ds.v(i, j, d), ds.m(i, j, d)));
                let (r, v, m) = match pr { Ok(x) => x, Err(e) => { falsified("PartialDSym::r/v/m", format!("{} ({},{},{})", txt, i, j, d), format!("panic {}", e)); continue; } };
                let inr = i <= dim && j <= dim && d >= 1 && d <= n;
                if !inr && (r.is_some() || v.is_some() || m.is_some()) { falsified("PartialDSym::r/v/m", format!("{} ({},{},{})", txt, i, j, d), "Some for out-of-range arguments".into()); }
                if inr {
                    if let (Some(r), Some(v)) = (r, v) { if m != Some(r * v) { falsified("PartialDSym::m", format!("{} ({},{},{})", txt, i, j, d), format!("m={:?} r={} v={}", m, r, v)); } }
                    if (r, v, m) != (ds.r(j, i, d), ds.v(j, i, d), ds.m(j, i, d)) { falsified("PartialDSym::r/v/m", format!("{} ({},{},{})", txt, i, j, d), "not symmetric in i,j".into()); }
                    if i.abs_diff(j) <= 1 { if let Some(len) = orbit_len(&ds, i, j, d) { if r != Some(len) { falsified("PartialDSym::r", format!("{} r({},{},{})", txt, i, j, d), format!("{:?} but the orbit has length {}", r, len)); } } }
                    else {
                        // non-adjacent indices: where the two operations commute at d the cycle has length 1 or 2 and r must be that length, v = 2 / r
                        if let Some(len) = orbit_len(&ds, i, j, d) { if len <= 2 && ds.op(j, ds.op(i, ds.op(j, ds.op(i, d).unwrap()).unwrap()).unwrap()) == Some(d) {
                            if r != Some(len) { falsified("PartialDSym::r", format!("{} r({},{},{})", txt, i, j, d), format!("{:?} but the orbit has length {}", r, len)); }
                            if v != Some(2 / len) || m != Some(2) { falsified("PartialDSym::v / m", format!("{} ({},{},{})", txt, i, j, d), format!("v={:?} m={:?} for an orbit of length {}", v, m, len)); } } }
                    }
                    for k in [i, j] { if let Some(e) = ds.op(k, d) { if (r, v, m) != (ds.r(i, j, e), ds.v(i, j, e), ds.m(i, j, e)) && i.abs_diff(j) <= 1 { falsified("PartialDSym::r/v/m", format!("{} ({},{},{})", txt, i, j, d), format!("not constant along op {}", k)); } } }
                }
                if let Some(s) = &simple {
                    match quiet(|| (s.r(i, j, d), s.v(i, j, d), s.m(i, j, d))) {
                        Ok(x) => if x != (r, v, m) { falsified("SimpleDSym::r/v/m", format!("{} ({},{},{})", txt, i, j, d), format!("{:?} but PartialDSym gives {:?}", x, (r, v, m))); },
                        Err(e) => falsified("SimpleDSym::r/v/m", format!("{} ({},{},{})", txt, i, j, d), format!("panic {} (PartialDSym gives {:?})", e, (r, v, m))),
                    }
                }
            }
        } }
    }
}
// the default DSet::r (walk + fold, outside the verifier) of the two plain D-set representations: orbit length or None
fn check_c02_plain_r() {
    for ds in corpus() {
        let txt = format!("{}", ds);
        let (n, dim) = (ds.size(), ds.dim());
        let pset = match quiet(|| as_dset(&ds)) { Ok(p) => p, Err(_) => continue };
        let sset: Option<SimpleDSet> = if ds.is_complete() { quiet(|| SimpleDSet::from(as_dset(&ds))).ok() } else { None };
        for i in 0..=dim + 1 { for j in 0..=dim + 1 { for d in 0..=n + 1 {
            let inr = i <= dim && j <= dim && d >= 1 && d <= n;
            let exp = if inr { orbit_len(&ds, i, j, d) } else { None };
            if n <= 6 || (i + j + d) % 3 == 0 {
                match quiet(|| pset.r(i, j, d)) { Ok(r) => if r != exp && (exp.is_some() || !inr) { falsified("DSet::r (default, PartialDSet)", format!("{} r({},{},{})", txt, i, j, d), format!("{:?} expected {:?}", r, exp)); }, Err(e) => falsified("DSet::r (default, PartialDSet)", format!("{} r({},{},{})", txt, i, j, d), format!("panic {}", e)) }
                if let Some(s) = &sset { match quiet(|| s.r(i, j, d)) { Ok(r) => if r != exp { falsified("DSet::r (default, SimpleDSet)", format!("{} r({},{},{})", txt, i, j, d), format!("{:?} expected {:?}", r, exp)); }, Err(e) => falsified("DSet::r (default, SimpleDSet)", format!("{} r({},{},{})", txt, i, j, d), format!("panic {}", e)) } }
            }
        } } }
    }
}
fn check_c01() {
    let mut inputs: Vec<String> = corpus().iter().map(|d| format!("{}", d)).collect();
    for s in ["", "<", "<1.1:1:2,1,1:3,3>", "<1.1:3:2 2,1 2 3,1 2 3:3,3>", "<1.1:1:0,1,1:3,3>", "<1.1:2 18446744073709551615:2,2,2:3,3>",
              "<1.1:99999999999:2,2,2:3,3>", "<1.1:2305843009213693952 1:1,1:1>", "<1.1:2:2,2,2:0 0,0 0>", "<1.1:2:1 2,3,2:3,3>", "<1.1:0:1:1>",
              "<1.1:1 0::>", "<1.1:2:2 1,1 2,1 2:3 3,3 3>",
              // decimal numbers beyond 64 bits at every position (header, size, dimension, image, degree)
              "<1.1:1:1,1,1:3,18446744073709551616>", "<99999999999999999999.1:1:1,1,1:3,4>", "<1.99999999999999999999:1:1,1,1:3,4>", "<1.1:18446744073709551616:1,1,1:3,4>",
              "<1.1:1 36893488147419103232:1,1,1:3,4>", "<1.1:1:340282366920938463463374607431768211456,1,1:3,4>", "<1.1:1:1,1,1:18446744073709551616,4>", "<1.1:2:2,2,2:3,3 3>", "<1.1:1:1,1,1:2,3>", "<1.1:4:2 4,4 3,2 4:4,4>"] { inputs.push(s.to_string()); }
    // round trip of symbols built through the API, including degrees beyond 32 bits
    for ds in corpus().into_iter().filter(|d| d.is_complete()).take(60) {
        for big in [1usize << 31, (1usize << 32) + 7, 1usize << 40] {
            let mut b = ds.clone();
            if quiet(|| b.set_v(0, 1, big)).is_err() { continue; }
            let t = format!("{}", b);
            match quiet(|| t.parse::<PartialDSym>()) { Ok(Ok(back)) => if back != b { falsified("Display/from_str round trip", format!("symbol printed as {:?}", t), "parses to a different symbol".into()); },
                Ok(Err(e)) => falsified("Display/from_str round trip", format!("symbol printed as {:?}", t), format!("does not parse: {}", e.lines().next().unwrap_or(""))),
                Err(e) => falsified("Display/from_str round trip", format!("symbol printed as {:?}", t), format!("panic {}", e)) }
        }
    }
    // rejected texts with multi-byte characters at every distance from the start (error messages echo the remainder of the input)
    for n in 0..70usize { for tail in ["\u{2192}", "\u{1F600}\u{2603}", "\u{00e9}\u{00e9}\u{00e9}"] { inputs.push(format!("<1.1:{}{}", "1 ".repeat(n), tail)); inputs.push(format!("{}{}<1.1:1:1,1,1:3,3>", "x".repeat(n), tail)); } }
    // set / symbol counters 0 in the header, as Display prints them for symbols numbered from 0
    for s in ["<0.1:1:1,1,1:3,3>", "<1.0:1:1,1,1:3,3>", "<0.0:2:2,1 2,1 2:6,4>"] { inputs.push(s.to_string()); }
    for ds in corpus().into_iter().filter(|d| d.is_complete()).take(40) {
        for (a, b) in [(0usize, 0usize), (0, 3), (2, 0)] {
            if let Ok(t) = quiet(|| format!("{}", SimpleDSym::from_partial(ds.clone(), b))) {
                let t = t.replacen(&format!("<1.{}:", b), &format!("<{}.{}:", a, b), 1);
                match quiet(|| t.parse::<PartialDSym>()) { Ok(Ok(back)) => if back != ds { falsified("Display/from_str round trip", format!("symbol printed as {:?}", t), "parses to a different symbol".into()); },
                    Ok(Err(e)) => falsified("Display/from_str round trip", format!("symbol printed as {:?}", t), format!("does not parse: {}", e.lines().next().unwrap_or(""))),
                    Err(e) => falsified("Display/from_str round trip", format!("symbol printed as {:?}", t), format!("panic {}", e)) }
            }
        }
    }
    // LARGE symbols built through the API: one (0,1)-orbit of length n/2 for n = 512, 600, 1024 chambers (orbit lengths beyond 255), and
    // dimensions 256, 300 and 1000 on one chamber: the printed text must parse back to an equal symbol
    for n in [512usize, 600, 1024] {
        let r = quiet(|| { let mut ds = PartialDSet::new(n, 1);
            for k in 0..n / 2 { ds.set(0, 2 * k + 1, 2 * k + 2); ds.set(1, 2 * k + 2, if 2 * k + 3 > n { 1 } else { 2 * k + 3 }); }
            let mut sym: PartialDSym = ds.into(); sym.set_v(0, 1, 1); sym });
        match r { Err(e) => falsified("PartialDSym (large orbit)", format!("one (0,1)-orbit on {} chambers", n), format!("panic {}", e)),
            Ok(sym) => { let t = format!("{}", sym);
                match quiet(|| t.parse::<PartialDSym>()) { Ok(Ok(back)) => if back != sym { falsified("Display/from_str round trip", format!("one (0,1)-orbit on {} chambers", n), "parses to a different symbol".into()); },
                    Ok(Err(e)) => falsified("Display/from_str round trip", format!("one (0,1)-orbit on {} chambers", n), format!("does not parse: {}", e.lines().next().unwrap_or(""))),
                    Err(e) => falsified("PartialDSym::from_str", format!("the text of one (0,1)-orbit on {} chambers", n), format!("panic {}", e)) } } }
    }
    for dim in [256usize, 300, 1000] {
        let r = quiet(|| { let mut ds = PartialDSet::new(1, dim); for i in 0..=dim { ds.set(i, 1, 1); } let mut sym: PartialDSym = ds.into(); for i in 0..dim { sym.set_v(i, 1, 3); } sym });
        match r { Err(e) => falsified("PartialDSym (large dimension)", format!("one chamber, dimension {}", dim), format!("panic {}", e)),
            Ok(sym) => { let t = format!("{}", sym);
                match quiet(|| t.parse::<PartialDSym>()) { Ok(Ok(back)) => if back != sym { falsified("Display/from_str round trip", format!("one chamber, dimension {}", dim), "parses to a different symbol".into()); },
                    Ok(Err(e)) => falsified("Display/from_str round trip", format!("one chamber, dimension {}", dim), format!("does not parse: {}", e.lines().next().unwrap_or(""))),
                    Err(e) => falsified("PartialDSym::from_str", format!("the text of one chamber, dimension {}", dim), format!("panic {}", e)) } } }
    }
    let mut rng = Rng(5);
    let base: Vec<String> = inputs.clone();
    for b in &base { for _ in 0..6 {   // single-character edits of valid text
        let mut c: Vec<char> = b.chars().collect();
        if c.is_empty() { continue; }
        let k = rng.below(c.len());
        match rng.below(3) { 0 => { c[k] = ['0', '1', '2', '3', '9', ' ', ',', ':'][rng.below(8)]; } 1 => { c.remove(k); } _ => { c.insert(k, ['1', '2', ' ', ','][rng.below(4)]); } }
        inputs.push(c.into_iter().collect());
    } }
    for s in inputs {
        // breadcrumb: an allocation failure is an abort, not a panic -- if the process dies here, tools/falsify.py reports this input
        println!("TRYING PartialDSym::from_str :: {:?}", s);
        watch("PartialDSym::from_str", format!("{:?}", s));
        match quiet(|| s.parse::<PartialDSym>()) {
            Err(e) => falsified("PartialDSym::from_str", format!("{:?}", s), format!("panic {}", e)),
            Ok(Err(_)) => {}
            Ok(Ok(ds)) => {
                let (n, dim) = (ds.size(), ds.dim());
                for i in 0..=dim { for d in 1..=n {
                    match ds.op(i, d) { Some(e) if e >= 1 && e <= n && ds.op(i, e) == Some(d) => {}, x => falsified("PartialDSym::from_str", format!("{:?}", s), format!("op({},{}) = {:?} is not an involution on 1..size", i, d, x)) }
                    if i < dim { if let (Some(r), Some(m)) = (orbit_len(&ds, i, i + 1, d), ds.m(i, i + 1, d)) { if m % r != 0 { falsified("PartialDSym::from_str", format!("{:?}", s), format!("m({},{},{}) = {} is not a multiple of the orbit length {}", i, i + 1, d, m, r)); } } }
                } }
                if ds.is_complete() {
                    let t = format!("{}", ds);
                    match quiet(|| t.parse::<PartialDSym>()) { Ok(Ok(back)) => if back != ds { falsified("Display/from_str round trip", format!("{:?}", s), format!("prints as {:?} which parses to a different symbol", t)); },
                        _ => falsified("Display/from_str round trip", format!("{:?}", s), format!("prints as {:?} which does not parse", t)) }
                }
            }
        }
    }
    unwatch();
}
fn valid_morphism<S: DSym, T: DSym>(a: &S, b: &T, m: &[usize]) -> Option<String> {
    for d in 1..=a.size() { if m[d] == 0 { continue; }
        for i in 0..=a.dim() { if let (Some(di), Some(ei)) = (a.op(i, d), b.op(i, m[d])) { if m[di] != ei { return Some(format!("does not commute with op {} at {}", i, d)); } } }
        for i in 0..a.dim() { if a.m(i, i + 1, d) != b.m(i, i + 1, m[d]) { return Some(format!("degree m({},{}) differs at {} -> {}", i, i + 1, d, m[d])); } } }
    None
}
// the automorphism list against brute force over all permutations of the chambers (connected complete symbols of at most 6 chambers, both
// symbol representations): exactly the operation-commuting, degree-preserving bijections
fn check_c04_automorphisms() {
    fn perms_of(n: usize) -> Vec<Vec<usize>> { all_perms(n) }
    let mut syms: Vec<PartialDSym> = corpus().into_iter().filter(|d| d.is_complete() && d.size() <= 6 && reach(d, &(0..=d.dim()).collect::<Vec<_>>(), 1).len() == d.size()).collect();
    for s in ["<1.1:4:2 4,1 3 4,1 2 3 4:4,3 4 3>", "<1.1:2:2,1 2,1 2:4,3 4>", "<1.1:4:2 4,3 4,4 3:4,4>", "<1.1:6:2 4 6,6 3 5,2 4 6:3,3>"] { if let Ok(d) = s.parse::<PartialDSym>() { syms.push(d); } }
    for ds in syms {
        let (n, dim) = (ds.size(), ds.dim());
        let mut exp: BTreeSet<Vec<usize>> = BTreeSet::new();
        for p in perms_of(n) {
            let m: Vec<usize> = std::iter::once(0).chain(p.iter().map(|&x| x + 1)).collect();
            let ok = (1..=n).all(|d| (0..=dim).all(|i| ds.op(i, d).map(|e| m[e]) == ds.op(i, m[d])) && (0..dim).all(|i| ds.m(i, i + 1, d) == ds.m(i, i + 1, m[d])));
            if ok { exp.insert(m); }
        }
        let txt = format!("{}", ds);
        match quiet(|| ds.automorphisms()) {
            Err(e) => falsified("DSet::automorphisms", txt.clone(), format!("panic {}", e)),
            Ok(a) => { let got: BTreeSet<Vec<usize>> = a.iter().cloned().collect(); if got != exp || got.len() != a.len() { falsified("DSet::automorphisms", txt.clone(), format!("{:?}, brute force over all permutations gives {:?}", a, exp)); } }
        }
        if let Ok(sd) = quiet(|| SimpleDSym::from(ds.clone())) {
            match quiet(|| sd.automorphisms()) {
                Err(e) => falsified("DSet::automorphisms (SimpleDSym)", txt.clone(), format!("panic {}", e)),
                Ok(a) => { let got: BTreeSet<Vec<usize>> = a.iter().cloned().collect(); if got != exp || got.len() != a.len() { falsified("DSet::automorphisms (SimpleDSym)", txt.clone(), format!("{:?}, brute force over all permutations gives {:?}", a, exp)); } }
            }
        }
    }
}
fn check_c04() {
    let c = corpus();
    for a in &c { for b in &c { if a.dim() != b.dim() || a.size() > 4 || b.size() > 4 { continue; }
        for img in 1..=b.size() {
            let txt = format!("{} -> {} img0={}", a, b, img);
            match quiet(|| a.morphism(b, img)) {
                Err(e) => falsified("DSet::morphism", txt, format!("panic {}", e)),
                Ok(Some(m)) => { if m[1] != img { falsified("DSet::morphism", txt.clone(), "base image not respected".into()); } if let Some(w) = valid_morphism(a, b, &m) { falsified("DSet::morphism", txt, format!("returned {:?} which {}", m, w)); } }
                Ok(None) => {
                    // brute force: is there a total valid map with phi(1) = img ?  (sizes <= 4)
                    let n = a.size(); let k = b.size();
                    let mut phi = vec![0usize; n + 1];
                    let total = k.pow(n as u32);
                    for code in 0..total { let mut c = code; for d in 1..=n { phi[d] = 1 + c % k; c /= k; }
                        if phi[1] == img && a.is_connected() && valid_morphism(a, b, &phi).is_none() { falsified("DSet::morphism", txt.clone(), format!("returned None but {:?} is a morphism", phi)); break; } }
                }
            }
        }
    } }
}
fn check_c05() {
    for ds in corpus() { if !ds.is_complete() || ds.size() > 5 { continue; }
        let txt = format!("{}", ds);
        match quiet(|| oriented_cover(&ds)) {
            Err(e) => falsified("oriented_cover", txt, format!("panic {}", e)),
            Ok(c) => {
                let sz = ds.size();
                if c.size() % sz != 0 || c.dim() != ds.dim() { falsified("oriented_cover", txt.clone(), format!("size {} is not a multiple of {}", c.size(), sz)); continue; }
                let proj = |d: usize| (d - 1) % sz + 1;
                for i in 0..=ds.dim() { for d in 1..=c.size() { match c.op(i, d) {
                    Some(e) => if Some(proj(e)) != ds.op(i, proj(d)) { falsified("cover", txt.clone(), format!("projection does not commute with op {} at chamber {}", i, d)); },
                    None => falsified("cover", txt.clone(), format!("op({},{}) undefined in the cover", i, d)) } } }
                for i in 0..ds.dim() { for d in 1..=c.size() { if c.m(i, i + 1, d) != ds.m(i, i + 1, proj(d)) { falsified("cover", txt.clone(), format!("degree m({},{}) not preserved at {}", i, i + 1, d)); } } }
                // "The oriented cover is oriented and has one sheet if the base is oriented and two otherwise"
                let (n, dim) = (ds.size(), ds.dim());
                let loopless = (0..=dim).all(|i| (1..=n).all(|d| ds.op(i, d) != Some(d)));
                let mut col = vec![0i8; n + 1]; let mut bip = true;
                for s0 in 1..=n { if col[s0] != 0 { continue; } col[s0] = 1; let mut st = vec![s0];
                    while let Some(d) = st.pop() { for i in 0..=dim { if let Some(e) = ds.op(i, d) { if e == d { continue; } if col[e] == 0 { col[e] = -col[d]; st.push(e); } else if col[e] == col[d] { bip = false; } } } } }
                let sheets = if loopless && bip { 1 } else { 2 };
                if c.size() != sheets * sz { falsified("oriented_cover", txt.clone(), format!("{} sheet(s), expected {}", c.size() / sz, sheets)); }
                let c_loopless = (0..=dim).all(|i| (1..=c.size()).all(|d| c.op(i, d) != Some(d)));
                let mut ccol = vec![0i8; c.size() + 1]; let mut cbip = true;
                for s0 in 1..=c.size() { if ccol[s0] != 0 { continue; } ccol[s0] = 1; let mut st = vec![s0];
                    while let Some(d) = st.pop() { for i in 0..=dim { if let Some(e) = c.op(i, d) { if e == d { continue; } if ccol[e] == 0 { ccol[e] = -ccol[d]; st.push(e); } else if ccol[e] == ccol[d] { cbip = false; } } } } }
                if !(c_loopless && cbip) { falsified("oriented_cover", txt.clone(), "the result is not oriented (it has a mirror or an odd cycle)".into()); }
                if ds.is_connected() && reach(&c, &(0..=dim).collect::<Vec<_>>(), 1).len() != c.size() { falsified("oriented_cover", txt.clone(), "the cover of a connected symbol is not connected".into()); }
            }
        }
    }
}
// covers(ds, k): every returned symbol is complete, connected and maps onto the base by a morphism (operations and degrees)
fn check_c05_covers() {
    for s in ["<1.1:1:1,1,1:4,4>", "<1.1:1:1,1,1:3,6>", "<1.1:2:2,1 2,1 2:6,4>", "<1.1:2:2,2,2:4,3>", "<1.1:4:2 4,3 4,4 3:4,4>", "<1.1:1 3:1,1,1,1:4,3,4>", "<1.1:2:1 2,1 2,2:3 6,4>"] {
        if let Ok(base) = s.parse::<PartialDSym>() {
            for k in 1..=3usize {
                match quiet(|| rust_dsymbols::covers::covers(&base, k)) {
                    Err(e) => falsified("covers", format!("covers({}, {})", s, k), format!("panic {}", e)),
                    Ok(cs) => { let mut seen: BTreeSet<String> = BTreeSet::new();
                        for c in cs {
                            let txt = format!("covers({}, {}) -> {}", s, k, c);
                            if !c.is_complete() || reach(&c, &(0..=c.dim()).collect::<Vec<_>>(), 1).len() != c.size() { falsified("covers", txt.clone(), "not complete and connected".into()); }
                            if c.size() % base.size() != 0 || c.size() / base.size() > k { falsified("covers", txt.clone(), format!("{} chambers over a base of {}", c.size(), base.size())); }
                            if (1..=base.size()).all(|img| c.morphism(&base, img).map_or(true, |m| valid_morphism(&c, &base, &m).is_some() || m.iter().skip(1).any(|&x| x == 0))) { falsified("covers", txt.clone(), "does not map onto the base by a morphism".into()); }
                            seen.insert(format!("{}", c));
                        } }
                }
            }
        }
    }
}
fn trace(t: &CosetTable, w: &FreeWord) -> Option<usize> { let mut r = 0; for &g in w.iter() { r = t.get(r, g)?; } Some(r) }
fn check_c11() {
    let w = |v: &[isize]| FreeWord::from(v.to_vec());
    let groups: Vec<(usize, Vec<FreeWord>, Vec<FreeWord>, usize)> = vec![
        (2, vec![w(&[1, 1]), w(&[2, 2]), w(&[1, 2, 1, 2, 1, 2])], vec![], 6),
        (2, vec![w(&[1, 1]), w(&[2, 2]), w(&[1, 2, 1, 2, 1, 2])], vec![w(&[1])], 3),
        (2, vec![w(&[1, 1]), w(&[2, 2]), w(&[1, 2, 1, 2, 1, 2])], vec![w(&[2])], 3),
        (2, vec![w(&[1, 1]), w(&[2, 2]), w(&[1, 2, 1, 2])], vec![], 4),
        (1, vec![w(&[1, 1, 1, 1, 1])], vec![], 5),
        (1, vec![w(&[1, 1]), w(&[])], vec![w(&[])], 2),
        (2, vec![w(&[1, 1, 1]), w(&[2, 2]), w(&[1, 2, 1, 2])], vec![w(&[2])], 3),
        (1, vec![w(&[1, 1, 1, 1, 1, 1, 1])], vec![w(&[1, 1])], 1),                      // deductions must be followed up (D11)
        (2, vec![w(&[1, 1, 1, 1, 1, 1]), w(&[2, -1, -1])], vec![], 6),                  // used to hit the row limit (D12)
        (2, vec![w(&[1, 1, 1]), w(&[2, 2]), w(&[1, 2, 1, 2, 1, 2, 1, 2, 1, 2])], vec![], 60),          // A5
        (2, vec![w(&[1, 1, 1]), w(&[2, 2]), w(&[1, 2, 1, 2, 1, 2, 1, 2, 1, 2])], vec![w(&[1])], 20),
        (2, vec![w(&[1, 1, 1]), w(&[2, 2, 2]), w(&[1, 2, -1, -2])], vec![w(&[-1, 2])], 3),             // Z3 x Z3, H = <a^-1 b>
        (3, vec![w(&[1, 1]), w(&[2, 2]), w(&[3, 3]), w(&[1, 2, 1, 2, 1, 2]), w(&[2, 3, 2, 3, 2, 3]), w(&[1, 3, 1, 3])], vec![w(&[1]), w(&[2])], 4),   // S4 / S3
    ];
    // the same groups with a redundant first generator t (relator `t`, every other generator shifted by one), the relator placed first or last
    let shift = |x: &FreeWord| FreeWord::from(x.iter().map(|&g| if g > 0 { g + 1 } else { g - 1 }).collect::<Vec<isize>>());
    let mut groups = groups;
    for (n, rels, sub, index) in groups.clone() {
        let mut first = vec![w(&[1])]; first.extend(rels.iter().map(shift));
        let mut last: Vec<FreeWord> = rels.iter().map(shift).collect(); last.push(w(&[1])); last.push(w(&[1, 2, -1, -2]));
        groups.push((n + 1, first, sub.iter().map(shift).collect(), index));
        groups.push((n + 1, last, sub.iter().map(shift).collect(), index));
    }
    for (n, rels, sub, index) in groups {
        let txt = format!("gens={} rels={:?} sub={:?}", n, rels.iter().map(letters).collect::<Vec<_>>(), sub.iter().map(letters).collect::<Vec<_>>());
        let t = match quiet(|| coset_table(n, &rels, &sub)) { Ok(t) => t, Err(e) => { falsified("coset_table", txt, format!("panic {}", e)); continue; } };
        if t.len() != index { falsified("coset_table", txt.clone(), format!("{} rows, index is {}", t.len(), index)); }
        for r in 0..t.len() { for g in t.all_gens() { match t.get(r, g) { Some(k) => if t.get(k, -g) != Some(r) { falsified("coset_table", txt.clone(), format!("row {} gen {}: inverse does not return", r, g)); }, None => falsified("coset_table", txt.clone(), format!("row {} gen {} undefined", r, g)) } } }
        for s in &sub { if trace(&t, s) != Some(0) { falsified("coset_table", txt.clone(), format!("subgroup generator {:?} does not fix row 0", letters(s))); } }
        for r in 0..t.len() { for rel in &rels { let mut x = Some(r); for &g in rel.iter() { x = x.and_then(|y| t.get(y, g)); } if x != Some(r) { falsified("coset_table", txt.clone(), format!("relator {:?} traced from row {} ends in {:?}", letters(rel), r, x)); break; } } }
        { let mut seen = vec![false; t.len()]; let mut st = vec![0usize]; if t.len() > 0 { seen[0] = true; } while let Some(r) = st.pop() { for g in t.all_gens() { if let Some(k) = t.get(r, g) { if k < seen.len() && !seen[k] { seen[k] = true; st.push(k); } } } }
          if seen.iter().any(|b| !b) { falsified("coset_table", txt.clone(), "the action is not transitive".into()); } }
        match quiet(|| coset_representative(&t)) {
            Err(e) => falsified("coset_representative", txt, format!("panic {}", e)),
            Ok(reps) => { if reps.len() != t.len() { falsified("coset_representative", txt.clone(), format!("{} representatives for {} rows", reps.len(), t.len())); }
                for (k, wd) in &reps { if trace(&t, wd) != Some(*k) { falsified("coset_representative", txt.clone(), format!("row {} got word {:?} which traces to {:?}", k, letters(wd), trace(&t, wd))); } } }
        }
    }
}


// ================================================================================================
// BOUNDED stand-ins for the clauses no contract in reach decides (labelled bounded in the evidence, never counted as proved)
// ================================================================================================
fn reach<T: DSet>(ds: &T, idx: &[usize], seed: usize) -> BTreeSet<usize> {
    let mut seen = BTreeSet::new(); seen.insert(seed); let mut st = vec![seed];
    while let Some(d) = st.pop() { for &i in idx { if let Some(e) = ds.op(i, d) { if seen.insert(e) { st.push(e); } } } }
    seen
}
fn index_lists(dim: usize) -> Vec<Vec<usize>> {
    let mut out = vec![];
    for mask in 1u32..(1 << (dim + 1)) { let v: Vec<usize> = (0..=dim).filter(|i| mask & (1 << i) != 0).collect(); let mut r = v.clone(); r.reverse(); if r != v { out.push(r); } out.push(v); }
    if dim >= 2 { out.push(vec![1, 0, 2]); out.push(vec![2, 0, 1]); }
    out
}
// C02, second sentence: orbits = reachability, one representative per component, every i-edge of a traversed component exactly
// once, connected / complete / loopless / (weakly) oriented = their graph-theoretic definitions.  Stated bound: the corpus of
// ~190 D-symbols (8 parsed + random involution tables of size <= 5, dimension <= 3, fixed seed), ALL index lists in ascending and
// descending order (+ two mixed ones), all seeds.
fn check_c02_graph() {
    for ds in corpus() {
        let txt = format!("{}", ds);
        let (n, dim) = (ds.size(), ds.dim());
        let all: Vec<usize> = (0..=dim).collect();
        for idx in index_lists(dim) {
            let mut comps: Vec<BTreeSet<usize>> = vec![];
            for d in 1..=n {
                let exp = reach(&ds, &idx, d);
                match quiet(|| ds.orbit(idx.clone(), d)) {
                    Ok(o) => { let got: BTreeSet<usize> = o.iter().cloned().collect(); if got != exp || o.len() != got.len() { falsified("DSet::orbit (Traversal)", format!("{} orbit({:?}, {})", txt, idx, d), format!("{:?} but the reachable set is {:?}", o, exp)); } }
                    Err(e) => falsified("DSet::orbit (Traversal)", format!("{} orbit({:?}, {})", txt, idx, d), format!("panic {}", e)),
                }
                if !comps.iter().any(|c| c.contains(&d)) { comps.push(exp); }
            }
            if let Ok(reps) = quiet(|| ds.orbit_reps(idx.clone(), 1..=n)) {
                for c in &comps { let k = reps.iter().filter(|r| c.contains(r)).count(); if k != 1 { falsified("DSet::orbit_reps (Traversal)", format!("{} orbit_reps({:?}, all)", txt, idx), format!("{:?}: component {:?} has {} representatives", reps, c, k)); break; } }
            } else { falsified("DSet::orbit_reps (Traversal)", format!("{} orbit_reps({:?}, all)", txt, idx), "panic".into()); }
            // the seeds in descending and in rotated order (any order of seeds must give one representative per component)
            for (name, seeds) in [("descending", (1..=n).rev().collect::<Vec<usize>>()), ("rotated", (1..=n).map(|x| (x + n / 2) % n + 1).collect::<Vec<usize>>())] {
                if let Ok(reps) = quiet(|| ds.orbit_reps(idx.clone(), seeds.clone())) {
                    for c in &comps { let k = reps.iter().filter(|r| c.contains(r)).count(); if k != 1 { falsified("DSet::orbit_reps (Traversal)", format!("{} orbit_reps({:?}, seeds {} {:?})", txt, idx, name, seeds), format!("{:?}: component {:?} has {} representatives", reps, c, k)); break; } }
                } else { falsified("DSet::orbit_reps (Traversal)", format!("{} orbit_reps({:?}, seeds {})", txt, idx, name), "panic".into()); }
            }
            // every i-edge of the traversed component exactly once
            for d in 1..=n.min(3) {
                if let Ok(tr) = quiet(|| ds.traversal(idx.clone(), [d]).collect::<Vec<_>>()) {
                    let comp = reach(&ds, &idx, d);
                    let mut got: BTreeMap<(usize, usize, usize), usize> = BTreeMap::new();
                    for (i, a, b) in &tr { if let Some(i) = i { *got.entry((*i, *a.min(b), *a.max(b))).or_insert(0) += 1; } }
                    let mut exp: BTreeSet<(usize, usize, usize)> = BTreeSet::new();
                    for &x in &comp { for &i in &idx { if let Some(y) = ds.op(i, x) { exp.insert((i, x.min(y), x.max(y))); } } }
                    let gotset: BTreeSet<(usize, usize, usize)> = got.keys().cloned().collect();
                    if gotset != exp || got.values().any(|&c| c != 1) { falsified("Traversal", format!("{} traversal({:?}, [{}])", txt, idx, d), format!("edges reported {:?}, edges of the component {:?}", got, exp)); }
                }
            }
        }
        let conn = reach(&ds, &all, 1).len() == n;
        if quiet(|| ds.is_connected()).ok() != Some(conn) { falsified("DSet::is_connected", txt.clone(), format!("expected {}", conn)); }
        let complete_sets = (0..=dim).all(|i| (1..=n).all(|d| ds.op(i, d).is_some()));
        let loopless = (0..=dim).all(|i| (1..=n).all(|d| ds.op(i, d) != Some(d)));
        if quiet(|| ds.is_loopless()).ok() != Some(loopless) { falsified("DSet::is_loopless", txt.clone(), format!("expected {}", loopless)); }
        // bipartiteness with loops ignored
        let mut col = vec![0i8; n + 1]; let mut bip = true;
        for s0 in 1..=n { if col[s0] != 0 { continue; } col[s0] = 1; let mut st = vec![s0];
            while let Some(d) = st.pop() { for i in 0..=dim { if let Some(e) = ds.op(i, d) { if e == d { continue; } if col[e] == 0 { col[e] = -col[d]; st.push(e); } else if col[e] == col[d] { bip = false; } } } } }
        if quiet(|| ds.is_weakly_oriented()).ok() != Some(bip) { falsified("DSet::is_weakly_oriented (partial_orientation)", txt.clone(), format!("expected {}", bip)); }
        if quiet(|| ds.is_oriented()).ok() != Some(bip && loopless) { falsified("DSet::is_oriented", txt.clone(), format!("expected {}", bip && loopless)); }
        let _ = complete_sets;
    }
}

// C02 on PARTIAL D-sets (some operations undefined: "valid D-set" includes them, and an undefined operation is simply no edge):
// orbit = reachability, one representative per component, is_connected.  Stated bound: 240 random PartialDSets of size <= 5,
// dimension <= 3 with about a third of the entries undefined (fixed seed), all index lists, all seeds.
fn check_c02_graph_partial() {
    let mut rng = Rng(777);
    for size in 1..=5usize { for dim in 1..=3usize { for _ in 0..16 {
        let mut ds = PartialDSet::new(size, dim);
        let mut txt = format!("PartialDSet(size {}, dim {}):", size, dim);
        for i in 0..=dim {
            let mut free: Vec<usize> = (1..=size).collect();
            while !free.is_empty() {
                let d = free.remove(0);
                match rng.below(3) {
                    0 => {}                                                     // left undefined
                    1 => { ds.set(i, d, d); txt += &format!(" {}:{}-{}", i, d, d); }
                    _ => { if free.is_empty() { continue; } let k = rng.below(free.len()); let e = free.remove(k); ds.set(i, d, e); txt += &format!(" {}:{}-{}", i, d, e); }
                }
            }
        }
        let n = size;
        let all: Vec<usize> = (0..=dim).collect();
        for idx in index_lists(dim) {
            let mut comps: Vec<BTreeSet<usize>> = vec![];
            for d in 1..=n {
                let exp = reach(&ds, &idx, d);
                match quiet(|| ds.orbit(idx.clone(), d)) {
                    Ok(o) => { let got: BTreeSet<usize> = o.iter().cloned().collect(); if got != exp || o.len() != got.len() { falsified("DSet::orbit (Traversal, partial D-set)", format!("{} orbit({:?}, {})", txt, idx, d), format!("{:?} but the reachable set is {:?}", o, exp)); } }
                    Err(e) => falsified("DSet::orbit (Traversal, partial D-set)", format!("{} orbit({:?}, {})", txt, idx, d), format!("panic {}", e)),
                }
                if !comps.iter().any(|c| c.contains(&d)) { comps.push(exp); }
            }
            if let Ok(reps) = quiet(|| ds.orbit_reps(idx.clone(), 1..=n)) {
                for c in &comps { let k = reps.iter().filter(|r| c.contains(r)).count(); if k != 1 { falsified("DSet::orbit_reps (Traversal, partial D-set)", format!("{} orbit_reps({:?}, all)", txt, idx), format!("{:?}: component {:?} has {} representatives", reps, c, k)); break; } }
            } else { falsified("DSet::orbit_reps (Traversal, partial D-set)", format!("{} orbit_reps({:?}, all)", txt, idx), "panic".into()); }
        }
        // orbit_reps_2d: exactly one representative of every (i, j)-component (an undefined operation is no edge); must return
        for i in 0..=dim { for j in 0..=dim {
            watch("DSet::orbit_reps_2d (partial D-set)", format!("{} orbit_reps_2d({}, {})", txt, i, j));
            match quiet(|| ds.orbit_reps_2d(i, j)) {
                Err(e) => falsified("DSet::orbit_reps_2d (partial D-set)", format!("{} orbit_reps_2d({}, {})", txt, i, j), format!("panic {}", e)),
                Ok(reps) => { for d in 1..=n { let comp = reach(&ds, &[i, j], d); let k = reps.iter().filter(|r| comp.contains(r)).count();
                    if k != 1 { falsified("DSet::orbit_reps_2d (partial D-set)", format!("{} orbit_reps_2d({}, {})", txt, i, j), format!("{:?}: the component {:?} has {} representatives", reps, comp, k)); break; } } }
            }
            unwatch();
        } }
        let conn = reach(&ds, &all, 1).len() == n;
        if quiet(|| ds.is_connected()).ok() != Some(conn) { falsified("DSet::is_connected (partial D-set)", txt.clone(), format!("expected {}", conn)); }
        let complete = (0..=dim).all(|i| (1..=n).all(|d| ds.op(i, d).is_some()));
        if quiet(|| ds.is_complete()).ok() != Some(complete) { falsified("DSet::is_complete (partial D-set)", txt.clone(), format!("expected {}", complete)); }
    } } }
}

// C02 "every operation is an involution" for D-sets built through the public mutator: random histories of PartialDSet::set (consistent
// and conflicting calls mixed); a call may panic (that is the library's argument check), but after every ACCEPTED call the table must be a
// partial involution on 1..=size.  And is_complete of a PartialDSym with some branching numbers left unassigned against its definition.
// Stated bound: 600 histories of up to 10 calls on sets of size <= 4, dimension <= 2; 300 symbols with a random subset of degrees assigned.
fn check_c02_mutators() {
    let mut rng = Rng(4711);
    for _ in 0..600 {
        let (size, dim) = (1 + rng.below(4), 1 + rng.below(2));
        let mut ds = PartialDSet::new(size, dim);
        let mut hist: Vec<String> = vec![];
        for _ in 0..(1 + rng.below(10)) {
            let (i, d, e) = (rng.below(dim + 1), 1 + rng.below(size), 1 + rng.below(size));
            hist.push(format!("set({},{},{})", i, d, e));
            let mut copy = ds.clone();
            match quiet(move || { copy.set(i, d, e); copy }) {
                Err(_) => { hist.pop(); hist.push(format!("set({},{},{}) [rejected]", i, d, e)); }       // rejected: the set is unchanged
                Ok(c) => {
                    ds = c;
                    for k in 0..=dim { for x in 1..=size { if let Some(y) = ds.op(k, x) {
                        if y < 1 || y > size || ds.op(k, y) != Some(x) { falsified("PartialDSet::set", format!("PartialDSet::new({}, {}) then {:?}", size, dim, hist), format!("accepted, but op({},{}) = {} and op({},{}) = {:?}: not an involution", k, x, y, k, y, ds.op(k, y))); }
                    } } }
                }
            }
        }
    }
    for _ in 0..300 {
        let (size, dim) = (1 + rng.below(4), 1 + rng.below(3));
        let full = match quiet(|| random_dsym(&mut Rng(rng.next()), size, dim)) { Ok(Some(f)) => f, _ => continue };
        let mut sym: PartialDSym = as_dset(&full).into();
        let mut assigned_all = true;
        let mut txt = format!("PartialDSym::from(the D-set of {}) with", full);
        for i in 0..dim { for d in 1..=size { if sym.v(i, i + 1, d) == Some(0) { if rng.below(3) > 0 { sym.set_v(i, d, 1); txt += &format!(" set_v({},{},1)", i, d); } } } }
        for i in 0..dim { for d in 1..=size { if sym.v(i, i + 1, d) == Some(0) { assigned_all = false; } } }
        let defined = (0..=dim).all(|i| (1..=size).all(|d| sym.op(i, d).is_some()));
        let exp = defined && assigned_all;
        if quiet(|| sym.is_complete()).ok() != Some(exp) { falsified("PartialDSym::is_complete", txt, format!("expected {} (operations all defined: {}, every branching number assigned: {})", exp, defined, assigned_all)); }
    }
}

// C04, first two sentences: is_minimal / minimal_image against the coarsest degree-respecting congruence computed by partition
// refinement.  Stated bound: connected complete corpus symbols of size <= 5 (fixed seed) and their oriented covers.
fn coarsest_congruence<T: DSym>(ds: &T) -> usize {
    let n = ds.size(); let dim = ds.dim();
    let sig0: Vec<Vec<Option<usize>>> = (0..=n).map(|d| if d == 0 { vec![] } else { (0..dim).map(|i| ds.m(i, i + 1, d)).collect() }).collect();
    let mut cls: Vec<usize> = vec![0; n + 1];
    { let mut keys: Vec<Vec<Option<usize>>> = vec![]; for d in 1..=n { let k = keys.iter().position(|x| *x == sig0[d]).unwrap_or_else(|| { keys.push(sig0[d].clone()); keys.len() - 1 }); cls[d] = k; } }
    loop {
        let mut keys: Vec<(usize, Vec<usize>)> = vec![]; let mut next = vec![0; n + 1];
        for d in 1..=n { let sig: Vec<usize> = (0..=dim).map(|i| cls[ds.op(i, d).unwrap()]).collect(); let key = (cls[d], sig);
            let k = keys.iter().position(|x| *x == key).unwrap_or_else(|| { keys.push(key.clone()); keys.len() - 1 }); next[d] = k; }
        let (a, b) = (cls.iter().skip(1).collect::<BTreeSet<_>>().len(), next.iter().skip(1).collect::<BTreeSet<_>>().len());
        cls = next; if a == b { return b; }
    }
}
fn check_c04_minimal() {
    let mut syms: Vec<PartialDSym> = vec![];
    for ds in corpus() { if ds.is_complete() && ds.is_connected() && ds.size() <= 5 { if let Ok(c) = quiet(|| oriented_cover(&ds)) { if c.size() <= 10 { syms.push(c); } } syms.push(ds); } }
    // covers of tiny symbols: non-minimal by construction; a symbol and its covers have minimal images of the same size
    for s in ["<1.1:1:1,1,1:6,3>", "<1.1:1:1,1,1:4,4>", "<1.1:1:1,1,1:3,6>", "<1.1:2:2,1 2,1 2:6,4>", "<1.1:2:1 2,1 2,2:3 6,4>", "<1.1:1 3:1,1,1,1:4,3,4>"] {
        if let Ok(base) = s.parse::<PartialDSym>() {
            let kb = coarsest_congruence(&base);
            if let Ok(cs) = quiet(|| rust_dsymbols::covers::covers(&base, 4)) { for c in cs {
                if c.size() > 8 { continue; }
                if let Ok(mi) = quiet(|| minimal_image(&c)) { if mi.size() != kb { falsified("minimal_image", format!("{} (a cover of {})", c, s), format!("minimal image of size {} but that of the base has size {}", mi.size(), kb)); } }
                syms.push(c);
            } }
        }
    }
    for s in ["<1.1:3:1 2 3,1 3,2 3:6 6,3>", "<1.1:3:1 2 3,3 2,2 3:6 6,3>", "<1.1:2:1 2,1 2,2:4 6,4>"] { if let Ok(ds) = s.parse::<PartialDSym>() { syms.push(ds); } }
    for ds in syms {
        let txt = format!("{}", ds);
        let k = coarsest_congruence(&ds);
        match quiet(|| ds.is_minimal()) { Ok(b) => if b != (k == ds.size()) { falsified("DSet::is_minimal (fold)", txt.clone(), format!("{} but the coarsest degree-respecting congruence has {} classes on {} chambers", b, k, ds.size())); }, Err(e) => falsified("DSet::is_minimal (fold)", txt.clone(), format!("panic {}", e)) }
        match quiet(|| minimal_image(&ds)) {
            Ok(mi) => { if mi.size() != k { falsified("minimal_image", txt.clone(), format!("size {} but the coarsest degree-respecting congruence has {} classes", mi.size(), k)); }
                        if (1..=mi.size()).all(|img| ds.morphism(&mi, img).is_none()) { falsified("minimal_image", txt.clone(), "the symbol does not map onto its minimal image".into()); } }
            Err(e) => falsified("minimal_image", txt.clone(), format!("panic {}", e)),
        }
    }
}

// C18: determinant and solve of the machine-integer backend against exact arithmetic.  Stated bound: 400 random integer matrices,
// square up to 4x4 (determinant, solve with a right-hand side built from an integer solution), entries in -3..=3, fixed seed.
fn exact_det(m: &Vec<Vec<i64>>) -> i128 {
    let n = m.len(); let mut a: Vec<Vec<i128>> = m.iter().map(|r| r.iter().map(|&x| x as i128).collect()).collect();
    let mut sign = 1i128; let mut prev = 1i128;
    for k in 0..n { if a[k][k] == 0 { if let Some(p) = ((k + 1)..n).find(|&r| a[r][k] != 0) { a.swap(p, k); sign = -sign; } else { return 0; } }
        for i in (k + 1)..n { for j in (k + 1)..n { a[i][j] = (a[i][j] * a[k][k] - a[i][k] * a[k][j]) / prev; } } prev = a[k][k]; }
    sign * a[n - 1][n - 1]
}
// the p-adic modular solver: whenever it returns a solution, A x = b must hold exactly over the rationals.  Stated bound: 300
// random systems, n <= 3, entries up to 10^9 in absolute value, right-hand sides both large and tiny (shorter than every column),
// and 960 near-orthogonal systems of orders 2 and 4 at 60 scales (see below).
fn check_c18_modular() {
    use num_bigint::BigInt; use num_rational::BigRational; use num_traits::Zero;
    use rust_dsymbols::geometry::traits::Array2d;
    let mut rng = Rng(271828);
    for trial in 0..300 {
        let n = 1 + rng.below(3);
        let scale = [10i64, 1000, 1_000_003, 1_000_000_000][rng.below(4)];
        let bscale = [1i64, 2, 1000, 1_000_000_000][rng.below(4)];
        let data: Vec<Vec<i64>> = (0..n).map(|_| (0..n).map(|_| (rng.next() as i64 % (2 * scale + 1)) - scale).collect()).collect();
        let bs: Vec<i64> = (0..n).map(|_| (rng.next() as i64 % (2 * bscale + 1)) - bscale).collect();
        c18_modular_one(&data, &bs);
    }
    // systems whose solution sits near the Hadamard bound (where the number of lifting steps matters): scaled +-1 patterns with
    // orthogonal columns (orders 2 and 4) plus a small perturbation, right-hand sides of the same size that are no integer combination
    // of the columns; 60 scales from 3 to 10^9, 8 systems per scale and order
    let h2: [[i64; 2]; 2] = [[1, 1], [1, -1]];
    let h4: [[i64; 4]; 4] = [[1, 1, 1, 1], [1, -1, 1, -1], [1, 1, -1, -1], [1, -1, -1, 1]];
    let mut scale = 3.0f64;
    for _ in 0..60 {
        let s0 = scale as i64;
        for t in 0..8 {
            let s = s0 + t;
            let d2: Vec<Vec<i64>> = (0..2).map(|i| (0..2).map(|j| h2[i][j] * s + (rng.below(7) as i64 - 3)).collect()).collect();
            let b2: Vec<i64> = (0..2).map(|_| (rng.next() as i64 % (2 * s + 1)) - s).collect();
            c18_modular_one(&d2, &b2);
            let d4: Vec<Vec<i64>> = (0..4).map(|i| (0..4).map(|j| h4[i][j] * s + (rng.below(7) as i64 - 3)).collect()).collect();
            let b4: Vec<i64> = (0..4).map(|_| (rng.next() as i64 % (2 * s + 1)) - s).collect();
            c18_modular_one(&d4, &b4);
        }
        scale *= 1.4;
        if scale > 1.0e9 { scale = 1.0e9; }
    }
}
fn c18_modular_one(data: &Vec<Vec<i64>>, bs: &Vec<i64>) {
    use num_bigint::BigInt; use num_rational::BigRational; use num_traits::Zero;
    let n = bs.len();
    let r = quiet(|| { let mut a = VecMatrix::<i64>::new(n, n); for i in 0..n { for j in 0..n { a[(i, j)] = data[i][j]; } }
                       let mut b = VecMatrix::<i64>::new(n, 1); for i in 0..n { b[(i, 0)] = bs[i]; }
                       rust_dsymbols::geometry::modular_solver::solve(&a, &b).map(|x| (0..n).map(|i| x[(i, 0)].clone()).collect::<Vec<BigRational>>()) });
    match r {
        Ok(Some(x)) => { for i in 0..n { let mut acc = BigRational::zero(); for j in 0..n { acc = acc + BigRational::from_integer(BigInt::from(data[i][j])) * x[j].clone(); }
                             if acc != BigRational::from_integer(BigInt::from(bs[i])) { falsified("modular_solver::solve", format!("A={:?} b={:?}", data, bs), format!("returned {:?} but row {} of A x is {} instead of {}", x.iter().map(|q| q.to_string()).collect::<Vec<_>>(), i, acc, bs[i])); break; } } }
        Ok(None) => {}
        Err(e) => falsified("modular_solver::solve", format!("A={:?} b={:?}", data, bs), format!("panic {}", e)),
    }
}
fn check_c18_exact() {
    let mut rng = Rng(31337);
    for n in 1..=4usize { for _ in 0..100 {
        let data: Vec<Vec<i64>> = (0..n).map(|_| (0..n).map(|_| rng.below(7) as i64 - 3).collect()).collect();
        let xs: Vec<i64> = (0..n).map(|_| rng.below(5) as i64 - 2).collect();
        let mk = || { let mut m = VecMatrix::<i64>::new(n, n); for i in 0..n { for j in 0..n { m[(i, j)] = data[i][j]; } } m };
        match quiet(|| mk().determinant()) { Ok(d) => if d as i128 != exact_det(&data) { falsified("VecMatrix::determinant", format!("{:?}", data), format!("{} but the exact determinant is {}", d, exact_det(&data))); }, Err(e) => falsified("VecMatrix::determinant", format!("{:?}", data), format!("panic {}", e)) }
        let bs: Vec<i64> = (0..n).map(|i| (0..n).map(|j| data[i][j] * xs[j]).sum()).collect();
        let r = quiet(|| { let a = mk(); let mut b = VecMatrix::<i64>::new(n, 1); for i in 0..n { b[(i, 0)] = bs[i]; } a.solve(&b).map(|x| (0..n).map(|i| x[(i, 0)]).collect::<Vec<i64>>()) });
        match r { Ok(Some(x)) => { let back: Vec<i64> = (0..n).map(|i| (0..n).map(|j| data[i][j] * x[j]).sum()).collect(); if back != bs { falsified("VecMatrix::solve", format!("A={:?} b={:?}", data, bs), format!("returned {:?} which is not a solution", x)); } },
                  Ok(None) => if exact_det(&data) == 1 || exact_det(&data) == -1 { falsified("VecMatrix::solve", format!("A={:?} b={:?}", data, bs), "None for a unimodular (hence solvable over the integers) system".into()); },
                  Err(e) => falsified("VecMatrix::solve", format!("A={:?} b={:?}", data, bs), format!("panic {}", e)) }
    } }
}

// every SHAPE (1..4 rows x 1..4 columns) over the prime field Z/61: rank against own elimination mod p, solve is sound AND complete
// (a consistent system, b = A x0, must get a solution; every returned x satisfies A x = b), the null-space matrix has exactly
// columns - rank independent columns annihilated by the matrix.  Stated bound: 40 pseudo-random matrices per shape, entries 0..60 with
// many zeros and repeated rows (fixed seed).
fn check_c18_shapes() {
    const P: i64 = 61;
    type F = PrimeResidueClass<P>;
    let mut rng = Rng(606);
    let rank_mod = |m: &Vec<Vec<i64>>| -> usize {
        let mut a = m.clone(); let rows = a.len(); let cols = if rows == 0 { 0 } else { a[0].len() }; let mut rank = 0;
        for c in 0..cols { if rank >= rows { break; }
            if let Some(p) = (rank..rows).find(|&r| a[r][c] % P != 0) { a.swap(p, rank);
                let mut inv = 1; for t in 1..P { if (a[rank][c] * t) % P == 1 { inv = t; break; } }
                for r in (rank + 1)..rows { let f = (a[r][c] * inv) % P; for k in 0..cols { a[r][k] = ((a[r][k] - f * a[rank][k]) % P + P) % P; } }
                rank += 1; } }
        rank };
    for rows in 1..=4usize { for cols in 1..=4usize { for _ in 0..40 {
        let mut data: Vec<Vec<i64>> = (0..rows).map(|_| (0..cols).map(|_| if rng.below(3) == 0 { 0 } else { rng.below(P as usize) as i64 }).collect()).collect();
        if rows > 1 && rng.below(3) == 0 { let (a, b) = (rng.below(rows), rng.below(rows)); data[a] = data[b].clone(); }      // rank defects
        if rng.below(4) == 0 { for r in data.iter_mut() { r[0] = 0; } }                                                     // zero leading column
        let x0: Vec<i64> = (0..cols).map(|_| rng.below(P as usize) as i64).collect();
        let bs: Vec<i64> = (0..rows).map(|i| (0..cols).map(|j| data[i][j] * x0[j]).sum::<i64>() % P).collect();
        let txt = format!("over Z/61: A={:?} b={:?}", data, bs);
        let mk = || { let mut m = VecMatrix::<F>::new(rows, cols); for i in 0..rows { for j in 0..cols { m[(i, j)] = F::from(data[i][j]); } } m };
        let exp_rank = rank_mod(&data);
        match quiet(|| mk().rank()) { Ok(r) => if r != exp_rank { falsified("VecMatrix::rank", txt.clone(), format!("{} but the rank over Z/61 is {}", r, exp_rank)); }, Err(e) => falsified("VecMatrix::rank", txt.clone(), format!("panic {}", e)) }
        let sol = quiet(|| { let a = mk(); let mut b = VecMatrix::<F>::new(rows, 1); for i in 0..rows { b[(i, 0)] = F::from(bs[i]); } a.solve(&b).map(|x| (0..cols).map(|j| { let v: i64 = x[(j, 0)].into(); v }).collect::<Vec<i64>>()) });
        match sol {
            Ok(Some(x)) => { for i in 0..rows { let s: i64 = (0..cols).map(|j| data[i][j] * x[j]).sum::<i64>() % P; if s != bs[i] { falsified("VecMatrix::solve", txt.clone(), format!("returned {:?} which is not a solution (row {})", x, i)); break; } } }
            Ok(None) => falsified("VecMatrix::solve", txt.clone(), format!("None, but the system is consistent over the field (x = {:?} solves it)", x0)),
            Err(e) => falsified("VecMatrix::solve", txt.clone(), format!("panic {}", e)),
        }
        match quiet(|| { let n = mk().null_space_matrix(); let (nr, nc) = (rust_dsymbols::geometry::traits::Array2d::nr_rows(&n), rust_dsymbols::geometry::traits::Array2d::nr_columns(&n)); (0..nr).map(|i| (0..nc).map(|j| { let v: i64 = n[(i, j)].into(); v }).collect::<Vec<i64>>()).collect::<Vec<Vec<i64>>>() }) {
            Err(e) => falsified("VecMatrix::null_space_matrix", txt.clone(), format!("panic {}", e)),
            Ok(n) => {
                let nc = if n.is_empty() { 0 } else { n[0].len() };
                if cols - exp_rank > 0 {
                    if n.len() != cols || nc != cols - exp_rank { falsified("VecMatrix::null_space_matrix", txt.clone(), format!("{} x {} matrix, expected {} x {}", n.len(), nc, cols, cols - exp_rank)); }
                    else {
                        for i in 0..rows { for k in 0..nc { let s: i64 = (0..cols).map(|j| data[i][j] * n[j][k]).sum::<i64>() % P; if s != 0 { falsified("VecMatrix::null_space_matrix", txt.clone(), format!("column {} is not annihilated (row {})", k, i)); } } }
                        if rank_mod(&n) != nc { falsified("VecMatrix::null_space_matrix", txt.clone(), "the columns are not independent".into()); }
                    }
                }
            }
        }
    } } }
}

// every SHAPE over the rationals (VecMatrix<BigRational>): rank against fraction-free elimination on i128, solve sound and complete on
// consistent systems, null-space matrix of the right shape and annihilated.  Stated bound: 25 integer matrices per shape 1..4 x 1..4, entries
// in -3..=3 with many zeros and repeated rows (fixed seed).
fn check_c18_shapes_rational() {
    use num_bigint::BigInt; use num_rational::BigRational; use num_traits::Zero;
    let q = |v: i64| BigRational::from_integer(BigInt::from(v));
    let mut rng = Rng(707);
    for rows in 1..=4usize { for cols in 1..=4usize { for _ in 0..25 {
        let mut data: Vec<Vec<i64>> = (0..rows).map(|_| (0..cols).map(|_| if rng.below(3) == 0 { 0 } else { rng.below(7) as i64 - 3 }).collect()).collect();
        if rows > 1 && rng.below(3) == 0 { let (a, b) = (rng.below(rows), rng.below(rows)); data[a] = data[b].clone(); }
        if rng.below(4) == 0 { for r in data.iter_mut() { r[0] = 0; } }
        let x0: Vec<i64> = (0..cols).map(|_| rng.below(5) as i64 - 2).collect();
        let bs: Vec<i64> = (0..rows).map(|i| (0..cols).map(|j| data[i][j] * x0[j]).sum::<i64>()).collect();
        let txt = format!("over Q: A={:?} b={:?}", data, bs);
        let mk = || { let mut m = VecMatrix::<BigRational>::new(rows, cols); for i in 0..rows { for j in 0..cols { m[(i, j)] = q(data[i][j]); } } m };
        let exp_rank = exact_rank(&data);
        match quiet(|| mk().rank()) { Ok(r) => if r != exp_rank { falsified("VecMatrix::rank", txt.clone(), format!("{} but the rank over Q is {}", r, exp_rank)); }, Err(e) => falsified("VecMatrix::rank", txt.clone(), format!("panic {}", e)) }
        let sol = quiet(|| { let a = mk(); let mut b = VecMatrix::<BigRational>::new(rows, 1); for i in 0..rows { b[(i, 0)] = q(bs[i]); } a.solve(&b).map(|x| (0..cols).map(|j| x[(j, 0)].clone()).collect::<Vec<BigRational>>()) });
        match sol {
            Ok(Some(x)) => { for i in 0..rows { let mut acc = BigRational::zero(); for j in 0..cols { acc = acc + q(data[i][j]) * x[j].clone(); } if acc != q(bs[i]) { falsified("VecMatrix::solve", txt.clone(), format!("returned {:?} which is not a solution (row {})", x.iter().map(|v| v.to_string()).collect::<Vec<_>>(), i)); break; } } }
            Ok(None) => falsified("VecMatrix::solve", txt.clone(), format!("None, but the system is consistent (x = {:?} solves it)", x0)),
            Err(e) => falsified("VecMatrix::solve", txt.clone(), format!("panic {}", e)),
        }
        match quiet(|| { let n = mk().null_space_matrix(); let (nr, nc) = (rust_dsymbols::geometry::traits::Array2d::nr_rows(&n), rust_dsymbols::geometry::traits::Array2d::nr_columns(&n)); (0..nr).map(|i| (0..nc).map(|j| n[(i, j)].clone()).collect::<Vec<BigRational>>()).collect::<Vec<Vec<BigRational>>>() }) {
            Err(e) => falsified("VecMatrix::null_space_matrix", txt.clone(), format!("panic {}", e)),
            Ok(n) => {
                let nc = if n.is_empty() { 0 } else { n[0].len() };
                if cols - exp_rank > 0 {
                    if n.len() != cols || nc != cols - exp_rank { falsified("VecMatrix::null_space_matrix", txt.clone(), format!("{} x {} matrix, expected {} x {}", n.len(), nc, cols, cols - exp_rank)); }
                    else { for i in 0..rows { for k in 0..nc { let mut acc = BigRational::zero(); for j in 0..cols { acc = acc + q(data[i][j]) * n[j][k].clone(); } if !acc.is_zero() { falsified("VecMatrix::null_space_matrix", txt.clone(), format!("column {} is not annihilated (row {})", k, i)); } } } }
                }
            }
        }
    } } }
}

// random subgroups of the Coxeter groups S4 = [3,3] and S5 = [3,3,3]; the index is computed independently from the faithful
// permutation representation s_i = (i i+1) by brute-force closure
fn perm_mul(a: &Vec<usize>, b: &Vec<usize>) -> Vec<usize> { (0..a.len()).map(|i| b[a[i]]).collect() }
fn check_c11_random() {
    let w = |v: &[isize]| FreeWord::from(v.to_vec());
    let mut rng = Rng(4242);
    for n in [4usize, 5] {
        let ng = n - 1;
        let mut rels = vec![];
        for i in 1..=ng as isize { rels.push(w(&[i, i])); }
        for i in 1..=ng as isize { for j in (i + 1)..=ng as isize { if j == i + 1 { rels.push(w(&[i, j, i, j, i, j])); } else { rels.push(w(&[i, j, i, j])); } } }
        let gen_perm = |g: isize| -> Vec<usize> { let k = (g.abs() - 1) as usize; let mut p: Vec<usize> = (0..n).collect(); p.swap(k, k + 1); p };
        let order: usize = (1..=n).product();
        for _ in 0..(if n == 4 { 1500 } else { 300 }) {
            let nsub = 1 + rng.below(3);
            let mut sub = vec![];
            for _ in 0..nsub { let len = 1 + rng.below(4); let v: Vec<isize> = (0..len).map(|_| { let g = 1 + rng.below(ng) as isize; if rng.below(2) == 0 { g } else { -g } }).collect(); sub.push(FreeWord::from(v)); }
            // |H| by closure
            let id: Vec<usize> = (0..n).collect();
            let hg: Vec<Vec<usize>> = sub.iter().map(|s| s.iter().fold(id.clone(), |acc, &g| perm_mul(&acc, &gen_perm(g)))).collect();
            let mut elems: BTreeSet<Vec<usize>> = BTreeSet::new(); elems.insert(id.clone());
            let mut stack = vec![id.clone()];
            while let Some(x) = stack.pop() { for h in &hg { let y = perm_mul(&x, h); if elems.insert(y.clone()) { stack.push(y); } } }
            let index = order / elems.len();
            let txt = format!("S{} (Coxeter presentation) sub={:?}", n, sub.iter().map(letters).collect::<Vec<_>>());
            match quiet(|| coset_table(ng, &rels, &sub)) {
                Err(e) => falsified("coset_table", txt, format!("panic {}", e)),
                Ok(t) => {
                    if t.len() != index { falsified("coset_table", txt.clone(), format!("{} rows, index is {}", t.len(), index)); }
                    for s in &sub { if trace(&t, s) != Some(0) { falsified("coset_table", txt.clone(), format!("subgroup generator {:?} does not fix row 0", letters(s))); } }
                    'rows: for r in 0..t.len() { for rel in &rels { let mut x = Some(r); for &g in rel.iter() { x = x.and_then(|y| t.get(y, g)); } if x != Some(r) { falsified("coset_table", txt.clone(), format!("relator {:?} traced from row {} ends in {:?}", letters(rel), r, x)); break 'rows; } } }
                }
            }
        }
    }
}

// EXHAUSTIVE over all subgroups of S4 = [3,3] generated by one or two words of length <= 3 (inverse letters included): index against the
// brute-force closure in the faithful permutation representation, relators at every row, subgroup generators at row 0
fn check_c11_exhaustive() {
    let w = |v: &[isize]| FreeWord::from(v.to_vec());
    let n = 4usize; let ng = 3usize;
    // two orders of the same relator set (the enumeration's course depends on it)
    let mut rels_a = vec![];
    for i in 1..=ng as isize { rels_a.push(w(&[i, i])); }
    for i in 1..=ng as isize { for j in (i + 1)..=ng as isize { if j == i + 1 { rels_a.push(w(&[i, j, i, j, i, j])); } else { rels_a.push(w(&[i, j, i, j])); } } }
    let mut rels_b = vec![];
    for i in 1..=ng as isize { rels_b.push(w(&[i, i])); for j in (i + 1)..=ng as isize { if j == i + 1 { rels_b.push(w(&[i, j, i, j, i, j])); } else { rels_b.push(w(&[i, j, i, j])); } } }
    let gen_perm = |g: isize| -> Vec<usize> { let k = (g.abs() - 1) as usize; let mut p: Vec<usize> = (0..n).collect(); p.swap(k, k + 1); p };
    let id: Vec<usize> = (0..n).collect();
    let words: Vec<Vec<isize>> = all_words(ng as isize, 3).into_iter().filter(|v| !v.is_empty()).collect();
    let perms: Vec<Vec<usize>> = words.iter().map(|v| v.iter().fold(id.clone(), |acc, &g| perm_mul(&acc, &gen_perm(g)))).collect();
    let check = |sub: Vec<FreeWord>, hg: Vec<&Vec<usize>>| {
        let mut elems: BTreeSet<Vec<usize>> = BTreeSet::new(); elems.insert(id.clone());
        let mut stack = vec![id.clone()];
        while let Some(x) = stack.pop() { for h in &hg { let y = perm_mul(&x, h); if elems.insert(y.clone()) { stack.push(y); } } }
        let index = 24 / elems.len();
        for rels in [&rels_a, &rels_b] {
        let txt = format!("S4 rels={:?} sub={:?}", rels.iter().map(letters).collect::<Vec<_>>(), sub.iter().map(letters).collect::<Vec<_>>());
        match quiet(|| coset_table(ng, rels, &sub)) {
            Err(e) => falsified("coset_table", txt, format!("panic {}", e)),
            Ok(t) => {
                if t.len() != index { falsified("coset_table", txt.clone(), format!("{} rows, index is {}", t.len(), index)); return; }
                for s in &sub { if trace(&t, s) != Some(0) { falsified("coset_table", txt.clone(), format!("subgroup generator {:?} does not fix row 0", letters(s))); return; } }
                for r in 0..t.len() { for rel in rels.iter() { let mut x = Some(r); for &g in rel.iter() { x = x.and_then(|y| t.get(y, g)); } if x != Some(r) { falsified("coset_table", txt.clone(), format!("relator {:?} traced from row {} ends in {:?}", letters(rel), r, x)); return; } } }
            }
        }
        }
    };
    for a in 0..words.len() {
        check(vec![w(&words[a])], vec![&perms[a]]);
        for b in 0..words.len() { if a == b || words[a].len() + words[b].len() < 5 { continue; } check(vec![w(&words[a]), w(&words[b])], vec![&perms[a], &perms[b]]); }
    }
}

// small groups given by a presentation with a REDUNDANT or non-involutive generator and a faithful permutation model (checked against the
// relators first): ALL subgroups generated by one word of length <= 5 or by two words of length <= 3 (inverse letters included).  Index from
// the closure in the model; subgroup generators at row 0; relators at every row.  Stated bound: 7 presentations, about 3200 subgroups each.
fn check_c11_small_groups() {
    let w = |v: &[isize]| FreeWord::from(v.to_vec());
    let cyc = |n: usize, k: usize| -> Vec<usize> { (0..n).map(|x| (x + k) % n).collect() };
    // (name, relators, model of generator 1, model of generator 2, order)
    let groups: Vec<(&str, Vec<Vec<isize>>, Vec<usize>, Vec<usize>, usize)> = vec![
        ("V4 = <a,b | a^2, b^2, (ab)^2>", vec![vec![1, 1], vec![2, 2], vec![1, 2, 1, 2]], vec![1, 0, 3, 2], vec![2, 3, 0, 1], 4),
        ("Z6 = <a,b | b^6, a b^-3>", vec![vec![2, 2, 2, 2, 2, 2], vec![1, -2, -2, -2]], cyc(6, 3), cyc(6, 1), 6),
        ("Z6 = <a,b | b^6, a b^-2>", vec![vec![2, 2, 2, 2, 2, 2], vec![1, -2, -2]], cyc(6, 2), cyc(6, 1), 6),
        ("Z12 = <a,b | b^12, a b^-5>", vec![vec![2; 12], vec![1, -2, -2, -2, -2, -2]], cyc(12, 5), cyc(12, 1), 12),
        ("Z10 = <a,b | b^10, a b^-4>", vec![vec![2; 10], vec![1, -2, -2, -2, -2]], cyc(10, 4), cyc(10, 1), 10),
        ("S3 = <a,b | a^2, b^3, (ab)^2>", vec![vec![1, 1], vec![2, 2, 2], vec![1, 2, 1, 2]], vec![1, 0, 2], vec![1, 2, 0], 6),
        ("D4 = <a,b | a^4, b^2, (ab)^2>", vec![vec![1, 1, 1, 1], vec![2, 2], vec![1, 2, 1, 2]], vec![1, 2, 3, 0], vec![0, 3, 2, 1], 8),
    ];
    let words5: Vec<Vec<isize>> = all_words(2, 5).into_iter().filter(|v| !v.is_empty()).collect();
    let words3: Vec<Vec<isize>> = all_words(2, 3).into_iter().filter(|v| !v.is_empty()).collect();
    for (name, relv, m1, m2, order) in groups {
        let n = m1.len();
        let id: Vec<usize> = (0..n).collect();
        let inv = |p: &Vec<usize>| -> Vec<usize> { let mut q = vec![0; p.len()]; for (i, &x) in p.iter().enumerate() { q[x] = i; } q };
        let (i1, i2) = (inv(&m1), inv(&m2));
        let gp = |g: isize| -> &Vec<usize> { match g { 1 => &m1, -1 => &i1, 2 => &m2, _ => &i2 } };
        let perm_of = |v: &Vec<isize>| -> Vec<usize> { v.iter().fold(id.clone(), |acc, &g| perm_mul(&acc, gp(g))) };
        // the model satisfies the relators and has the stated order (so it is the group, given that the presentation has at most that order)
        if relv.iter().any(|r| perm_of(r) != id) { eprintln!("model of {} violates a relator", name); continue; }
        let closure = |gens: &Vec<Vec<usize>>| -> usize {
            let mut elems: BTreeSet<Vec<usize>> = BTreeSet::new(); elems.insert(id.clone());
            let mut stack = vec![id.clone()];
            while let Some(x) = stack.pop() { for h in gens { let y = perm_mul(&x, h); if elems.insert(y.clone()) { stack.push(y); } } }
            elems.len()
        };
        if closure(&vec![m1.clone(), m2.clone()]) != order { eprintln!("model of {} has the wrong order", name); continue; }
        let rels: Vec<FreeWord> = relv.iter().map(|r| w(r)).collect();
        let check = |subv: Vec<&Vec<isize>>| {
            let sub: Vec<FreeWord> = subv.iter().map(|v| w(v)).collect();
            let index = order / closure(&subv.iter().map(|v| perm_of(v)).collect());
            let txt = format!("{} sub={:?}", name, subv);
            watch("coset_table", txt.clone());
            match quiet(|| coset_table(2, &rels, &sub)) {
                Err(e) => falsified("coset_table", txt, format!("panic {}", e)),
                Ok(t) => {
                    if t.len() != index { falsified("coset_table", txt.clone(), format!("{} rows, index is {}", t.len(), index)); return; }
                    for s in &sub { if trace(&t, s) != Some(0) { falsified("coset_table", txt.clone(), format!("subgroup generator {:?} does not fix row 0", letters(s))); return; } }
                    for r in 0..t.len() { for rel in rels.iter() { if trace_from(&t, r, &letters(rel)) != Some(r) { falsified("coset_table", txt.clone(), format!("relator {:?} traced from row {} does not return", letters(rel), r)); return; } } }
                }
            }
        };
        check(vec![]);
        for a in &words5 { check(vec![a]); }
        for a in &words3 { for b in &words3 { check(vec![a, b]); } }
    }
    unwatch();
}

// "exactly one entry per conjugacy class of subgroups of index at most k": the classes of index n correspond to the transitive actions of the
// group on n points up to relabelling; counted here by brute force over all tuples of permutations that satisfy the relators (the presentation
// is the library's own fundamental_group(); every cover is checked to be a genuine covering separately, in check_c05_covers)
fn all_perms(n: usize) -> Vec<Vec<usize>> {
    let mut out = vec![]; let mut p: Vec<usize> = (0..n).collect();
    fn rec(k: usize, p: &mut Vec<usize>, out: &mut Vec<Vec<usize>>) { if k == p.len() { out.push(p.clone()); return; } for i in k..p.len() { p.swap(k, i); rec(k + 1, p, out); p.swap(k, i); } }
    rec(0, &mut p, &mut out); out
}
fn count_transitive_actions(ng: usize, rels: &[Vec<isize>], n: usize) -> usize {
    let perms = all_perms(n);
    let inv = |p: &Vec<usize>| { let mut r = vec![0; p.len()]; for (i, &x) in p.iter().enumerate() { r[x] = i; } r };
    let mut classes: BTreeSet<Vec<Vec<usize>>> = BTreeSet::new();
    let holds = |asg: &Vec<usize>, rel: &Vec<isize>| -> bool {
        (0..n).all(|x| { let mut y = x; for &g in rel { let p = &perms[asg[(g.abs() - 1) as usize]]; y = if g > 0 { p[y] } else { inv(p)[y] }; } y == x })
    };
    let mut stack: Vec<Vec<usize>> = vec![vec![]];
    while let Some(asg) = stack.pop() {
        if asg.len() == ng {
            let mut seen = vec![false; n]; seen[0] = true; let mut st = vec![0usize];
            while let Some(x) = st.pop() { for &a in &asg { for y in [perms[a][x], inv(&perms[a])[x]] { if !seen[y] { seen[y] = true; st.push(y); } } } }
            if seen.iter().any(|b| !b) { continue; }
            let canon = perms.iter().map(|s| { let si = inv(s); asg.iter().map(|&a| (0..n).map(|x| s[perms[a][si[x]]]).collect::<Vec<usize>>()).collect::<Vec<_>>() }).min().unwrap();
            classes.insert(canon);
            continue;
        }
        for c in 0..perms.len() {
            let mut next = asg.clone(); next.push(c);
            let g = next.len() as isize;
            if rels.iter().all(|r| r.iter().map(|x| x.abs()).max().unwrap_or(0) != g || holds(&next, r)) { stack.push(next); }
        }
    }
    classes.len()
}
fn check_c05_count() {
    let mut bases: Vec<PartialDSym> = vec![];
    for s in ["<1.1:1:1,1,1:4,4>", "<1.1:1:1,1,1:3,6>", "<1.1:2:2,1 2,1 2:6,4>", "<1.1:2:2,2,2:4,3>", "<1.1:4:2 4,3 4,4 3:4,4>", "<1.1:2:1 2,1 2,2:3 6,4>",
              "<1.1:8:2 4 6 8,8 3 5 7,6 5 8 7:4,4>", "<1.1:3:1 2 3,1 3,2 3:6 4,3>", "<1.1:1 3:1,1,1,1:4,3,4>",
              // eight chambers with many mirrors: 165 classes of coverings with at most 4 sheets (deductions made at the row being scanned matter)
              "<1.1:8:1 4 3 7 8,2 5 6 8,3 5 7 8:8,4 4>"] {
        if let Ok(ds) = s.parse::<PartialDSym>() { bases.push(ds); }
    }
    for ds in corpus() { if ds.is_complete() && ds.size() <= 6 && ds.dim() == 2 && reach(&ds, &[0, 1, 2], 1).len() == ds.size() { bases.push(ds); } }
    // every 16th of the 2D symbols with 7 or 8 chambers that the crate's generator produces (the thorough tier sweeps them all)
    {
        use rust_dsymbols::generators::dset_generators::DSets;
        use rust_dsymbols::generators::dsym_generators::{DSyms, Geometries};
        let mut n = 0usize;
        for dset in DSets::new(2, 8) { if dset.size() < 7 { continue; } for b in DSyms::new(&dset, Geometries::All) {
            n += 1;
            if n % 16 == 0 { if let Ok(ds) = format!("{}", b).parse::<PartialDSym>() { bases.push(ds); } }
        } }
    }
    for base in bases {
        let g = match quiet(|| rust_dsymbols::fundamental_group::fundamental_group(&base)) { Ok(g) => g, Err(_) => continue };
        let ng = g.nr_generators();
        let rels: Vec<Vec<isize>> = g.relators.iter().map(letters).collect();
        for k in 1..=4usize {
            if (k == 4 && ng > 4) || (k == 3 && ng > 6) || ng > 8 { continue; }
            let expected: usize = (1..=k).map(|n| count_transitive_actions(ng, &rels, n)).sum();
            match quiet(|| rust_dsymbols::covers::covers(&base, k)) {
                Err(e) => falsified("covers", format!("covers({}, {})", base, k), format!("panic {}", e)),
                Ok(cs) => if std::env::var("FALS_DEBUG").is_ok() { eprintln!("covers({}, {}): {} covers, oracle {} (ng={})", base, k, cs.len(), expected, ng); } else if cs.len() != expected { falsified("covers", format!("covers({}, {})", base, k), format!("{} covers, but the fundamental group has {} conjugacy classes of subgroups of index <= {}", cs.len(), expected, k)); },
            }
        }
    }
}

// THOROUGH tier only: every 2D symbol the crate's own generator produces up to 8 chambers (any symbol is a legitimate input, so the
// generator's completeness is not relied upon), sheet bound 4: every listed cover is a complete connected covering of the base, and
// (where the group has at most 5 generators) the list has one entry per conjugacy class of subgroups
fn thorough() -> bool { std::env::var("VERIF_TIER").map_or(false, |t| t == "thorough") }
fn check_c05_sweep() {
    use rust_dsymbols::generators::dset_generators::DSets;
    use rust_dsymbols::generators::dsym_generators::{DSyms, Geometries};
    let max_size = std::env::var("FALS_MAX_SIZE").ok().and_then(|s| s.parse().ok()).unwrap_or(8usize);
    let mut n = 0usize;
    for dset in DSets::new(2, max_size) { for base in DSyms::new(&dset, Geometries::All) {
        n += 1;
        let k = 4usize;
        let g = match quiet(|| rust_dsymbols::fundamental_group::fundamental_group(&base)) { Ok(g) => g, Err(_) => continue };
        match quiet(|| rust_dsymbols::covers::covers(&base, k)) {
            Err(e) => falsified("covers", format!("covers({}, {})", base, k), format!("panic {}", e)),
            Ok(cs) => {
                for c in &cs {
                    let txt = format!("covers({}, {}) -> {}", base, k, c);
                    if !c.is_complete() || reach(c, &[0, 1, 2], 1).len() != c.size() { falsified("covers", txt.clone(), "not complete and connected".into()); }
                    if c.size() % base.size() != 0 || c.size() / base.size() > k { falsified("covers", txt.clone(), format!("{} chambers over a base of {}", c.size(), base.size())); }
                    if (1..=base.size()).all(|img| c.morphism(&base, img).map_or(true, |m| valid_morphism(c, &base, &m).is_some() || m.iter().skip(1).any(|&x| x == 0))) { falsified("covers", txt.clone(), "does not map onto the base by a morphism".into()); }
                }
                let ng = g.nr_generators();
                if ng <= 5 {
                    let rels: Vec<Vec<isize>> = g.relators.iter().map(letters).collect();
                    let expected: usize = (1..=k).map(|n| count_transitive_actions(ng, &rels, n)).sum();
                    if cs.len() != expected { falsified("covers", format!("covers({}, {})", base, k), format!("{} covers, but the fundamental group has {} conjugacy classes of subgroups of index <= {}", cs.len(), expected, k)); }
                }
            }
        }
    } }
    eprintln!("swept {} symbols", n);
}

// finite universal covers of spherical 2D symbols: a genuine covering with size(base) * |pi_1| chambers, where |pi_1| is obtained
// independently of fundamental_group(): Todd-Coxeter (the coset_table of C11) over the TEXTBOOK presentation built here -- one generator per
// (chamber, index), pairing relators, spanning-tree generators trivial, one relator per (chamber, index pair): the walk around the 2-orbit
// raised to its branching number
fn textbook_presentation<T: DSym>(ds: &T) -> (usize, Vec<FreeWord>) {
    let (n, dim) = (ds.size(), ds.dim());
    let id = |d: usize, i: usize| ((d - 1) * (dim + 1) + i + 1) as isize;
    let mut rels: Vec<FreeWord> = vec![];
    for d in 1..=n { for i in 0..=dim { let e = ds.op(i, d).unwrap(); rels.push(FreeWord::from(vec![id(d, i), id(e, i)])); } }
    let mut seen = vec![false; n + 1]; seen[1] = true; let mut queue = std::collections::VecDeque::from([1usize]);
    while let Some(d) = queue.pop_front() { for i in 0..=dim { let e = ds.op(i, d).unwrap(); if !seen[e] { seen[e] = true; queue.push_back(e); rels.push(FreeWord::from(vec![id(d, i)])); } } }
    for d in 1..=n { for i in 0..=dim { for j in (i + 1)..=dim {
        let mut word: Vec<isize> = vec![]; let mut cur = d; let mut r = 0usize;
        loop { word.push(id(cur, i)); cur = ds.op(i, cur).unwrap(); word.push(id(cur, j)); cur = ds.op(j, cur).unwrap(); r += 1; if cur == d || r > 2 * n { break; } }
        let m = ds.m(i, j, d).unwrap_or(0);
        if r == 0 || m % r != 0 { continue; }
        let mut full: Vec<isize> = vec![]; for _ in 0..(m / r) { full.extend(word.iter()); }
        rels.push(FreeWord::from(full));
    } } }
    (n * (dim + 1), rels)
}
fn check_c05_universal() {
    use rust_dsymbols::generators::dset_generators::DSets;
    use rust_dsymbols::generators::dsym_generators::{DSyms, Geometries};
    let max_size = if thorough() { 6usize } else { 4usize };
    let mut n_checked = 0usize;
    let mut sub_rng = Rng(9001);
    for dset in DSets::new(2, max_size) { for base in DSyms::new(&dset, Geometries::All) {
        if !base.is_complete() || reach(&base, &[0, 1, 2], 1).len() != base.size() { continue; }
        // curvature (own computation): sum over chambers of 1/m01 + 1/m12 - 1/2, as a fraction over 2 * lcm-free common denominator
        let mut num: i64 = 0; let den: i64 = 2 * 3 * 4 * 5 * 6 * 7 * 8 * 9 * 10 * 11;     // degrees of generated symbols are small
        let mut ok = true;
        for d in 1..=base.size() { let (a, b) = (base.m(0, 1, d).unwrap_or(0) as i64, base.m(1, 2, d).unwrap_or(0) as i64); if a == 0 || b == 0 || den % a != 0 || den % b != 0 { ok = false; break; } num += den / a + den / b - den / 2; }
        if !ok || num <= 0 { continue; }
        let (ng, rels) = textbook_presentation(&base);
        let order = match quiet(|| coset_table(ng, &rels, &vec![])) { Ok(t) => t.len(), Err(_) => continue };
        if order * base.size() > 1000 { continue; }
        n_checked += 1;
        let txt = format!("finite_universal_cover({})", base);
        match quiet(|| rust_dsymbols::covers::finite_universal_cover(&base)) {
            Err(e) => falsified("finite_universal_cover", txt, format!("panic {}", e)),
            Ok(u) => {
                if !u.is_complete() || reach(&u, &[0, 1, 2], 1).len() != u.size() { falsified("finite_universal_cover", txt.clone(), "not complete and connected".into()); continue; }
                if u.size() != order * base.size() { falsified("finite_universal_cover", txt.clone(), format!("{} chambers; the orbifold fundamental group (Todd-Coxeter over the textbook presentation) has order {}, so the universal cover has {} chambers", u.size(), order, order * base.size())); continue; }
                if (1..=base.size()).all(|img| u.morphism(&base, img).map_or(true, |m| valid_morphism(&u, &base, &m).is_some() || m.iter().skip(1).any(|&x| x == 0))) { falsified("finite_universal_cover", txt.clone(), "does not map onto the base by a morphism".into()); continue; }
                // trivial fundamental group, independently: the textbook presentation of the cover itself is trivial
                if u.size() <= 60 { let (ng2, rels2) = textbook_presentation(&u); if let Ok(t2) = quiet(|| coset_table(ng2, &rels2, &vec![])) { if t2.len() != 1 { falsified("finite_universal_cover", txt.clone(), format!("the cover's own fundamental group has order {}", t2.len())); } } }
            }
        }
        // subgroup_cover for pseudo-random subgroups (1-3 generators, words of length <= 5 in the library's own generators, fixed seed; 60 per
        // symbol whose group has at least 24 elements, 12 otherwise): a
        // complete symbol that maps onto the base by a morphism and whose size divides the size of the universal cover
        if let Ok(g) = quiet(|| rust_dsymbols::fundamental_group::fundamental_group(&base)) {
            let ngl = g.nr_generators();
            if ngl >= 1 {
                for _ in 0..(if order >= 24 { 60 } else { 12 }) {
                    let nsub = 1 + sub_rng.below(3);
                    let sub: Vec<FreeWord> = (0..nsub).map(|_| { let len = 1 + sub_rng.below(5); FreeWord::from((0..len).map(|_| { let x = 1 + sub_rng.below(ngl) as isize; if sub_rng.below(2) == 0 { x } else { -x } }).collect::<Vec<isize>>()) }).collect();
                    let txt = format!("subgroup_cover({}, {:?})", base, sub.iter().map(letters).collect::<Vec<_>>());
                    watch("subgroup_cover", txt.clone());
                    match quiet(|| rust_dsymbols::covers::subgroup_cover(&base, &sub)) {
                        Err(e) => falsified("subgroup_cover", txt, format!("panic {}", e)),
                        Ok(c) => {
                            if !c.is_complete() { falsified("subgroup_cover", txt.clone(), "not complete".into()); continue; }
                            // one sheet per coset of the subgroup: the index from a coset enumeration over the library's presentation with THESE generators
                            if let Ok(ti) = quiet(|| coset_table(ngl, &g.relators, &sub)) { if c.size() != base.size() * ti.len() { falsified("subgroup_cover", txt.clone(), format!("{} sheets, but the subgroup generated by these words has index {}", c.size() / base.size(), ti.len())); continue; } }
                            if c.size() % base.size() != 0 || (order * base.size()) % c.size() != 0 { falsified("subgroup_cover", txt.clone(), format!("{} chambers over a base of {} whose universal cover has {}", c.size(), base.size(), order * base.size())); continue; }
                            if (1..=base.size()).all(|img| c.morphism(&base, img).map_or(true, |m| valid_morphism(&c, &base, &m).is_some() || m.iter().skip(1).any(|&x| x == 0))) { falsified("subgroup_cover", txt.clone(), "does not map onto the base by a morphism".into()); }
                        }
                    }
                    unwatch();
                }
            }
        }
    } }
    eprintln!("universal covers checked: {}", n_checked);
}

// ------------------------------------------------------------------------------------------------ C13 (bounded stand-ins)
// core table, intersection table and stabiliser presentation on subgroups of small groups with independently known order
fn trace_from(t: &CosetTable, start: usize, w: &[isize]) -> Option<usize> { let mut r = start; for &g in w { r = t.get(r, g)?; } Some(r) }
fn check_c13() {
    use rust_dsymbols::fpgroups::stabilizer::stabilizer;
    let w = |v: &[isize]| FreeWord::from(v.to_vec());
    // (generators, relators, order)
    let groups: Vec<(usize, Vec<FreeWord>, usize)> = vec![
        (2, vec![w(&[1, 1]), w(&[2, 2]), w(&[1, 2, 1, 2, 1, 2])], 6),
        (2, vec![w(&[1, 1]), w(&[2, 2]), w(&[1, 2, 1, 2])], 4),
        (2, vec![w(&[1, 1, 1]), w(&[2, 2]), w(&[1, 2, 1, 2, 1, 2])], 12),                                          // A4
        (3, vec![w(&[1, 1]), w(&[2, 2]), w(&[3, 3]), w(&[1, 2, 1, 2, 1, 2]), w(&[2, 3, 2, 3, 2, 3]), w(&[1, 3, 1, 3])], 24),   // S4
        (2, vec![w(&[1, 1, 1, 1]), w(&[2, 2]), w(&[1, 2, 1, 2])], 8),                                              // D4
        (1, vec![w(&[1, 1, 1, 1, 1, 1])], 6),
        // presentations with a redundant generator (a relator of length one): rewritten relators of length one must survive
        (2, vec![w(&[2]), w(&[1, 1, 1])], 3),                                                                        // Z3 = <a,b | b, a^3>
        (3, vec![w(&[1, 1]), w(&[2, 2]), w(&[1, 2, 1, 2, 1, 2]), w(&[3])], 6),                                      // S3 with a trivial third generator
        (2, vec![w(&[1, 1, 1, 1]), w(&[2, -1, -1])], 4),                                                             // Z4 = <a,b | a^4, b a^-2>
        // relators that are freely but NOT cyclically reduced (conjugated relators): rotations of them reduce further
        (2, vec![w(&[1, 1]), w(&[1, 2, 2, 2, -1]), w(&[1, 2, 1, 2])], 6),                                            // S3 = <a,b | a^2, a b^3 a^-1, (ab)^2>
        (2, vec![w(&[2, 1, 1, 1, 1, -2]), w(&[2, 2]), w(&[1, 2, 1, 2])], 8),                                        // D4 = <a,b | b a^4 b^-1, b^2, (ab)^2>
        (2, vec![w(&[2, 1, 1, 1, -2]), w(&[2, 2]), w(&[1, 2, 1, 2, 1, 2])], 12),                                    // A4 = <a,b | b a^3 b^-1, b^2, (ab)^3>
        (2, vec![w(&[1, 1, 1, -2, -2, -2]), w(&[1, 1, 1, -2, -1, -2, -1])], 24),                                    // SL(2,3) = <a,b | a^3 b^-3, a^3 (ab)^-2>
    ];
    for (n, rels, order) in &groups {
        let (n, order) = (*n, *order);
        let words: Vec<Vec<isize>> = all_words(n as isize, 2).into_iter().filter(|v| !v.is_empty()).collect();
        let test_words: Vec<Vec<isize>> = all_words(n as isize, if n >= 3 { 4 } else { 5 });
        let mut tables: Vec<(Vec<Vec<isize>>, CosetTable)> = vec![];
        let mut seen: BTreeSet<String> = BTreeSet::new();
        for a in 0..words.len().min(10) { for b in a..words.len().min(10) {
            let sub = vec![w(&words[a]), w(&words[b])];
            if let Ok(t) = quiet(|| coset_table(n, rels, &sub)) { let key = format!("{}", t); if seen.insert(key) { tables.push((vec![words[a].clone(), words[b].clone()], t)); } }
        } }
        if let Ok(t) = quiet(|| coset_table(n, rels, &vec![])) { tables.push((vec![], t)); }
        let gens_txt = format!("gens={} rels={:?}", n, rels.iter().map(letters).collect::<Vec<_>>());
        for (sub, t) in &tables {
            let txt = format!("{} sub={:?}", gens_txt, sub);
            // ---- core table: rows = order of the permutation group generated by the action; fixes-everything <=> fixes row 0 of the core
            match quiet(|| core_table(t)) {
                Err(e) => falsified("core_table", txt.clone(), format!("panic {}", e)),
                Ok(core) => {
                    let perms: Vec<Vec<usize>> = (1..=n as isize).map(|g| (0..t.len()).map(|r| t.get(r, g).unwrap_or(r)).collect()).collect();
                    let id: Vec<usize> = (0..t.len()).collect();
                    let mut elems: BTreeSet<Vec<usize>> = BTreeSet::new(); elems.insert(id.clone()); let mut st = vec![id.clone()];
                    while let Some(x) = st.pop() { for p in &perms { let y = perm_mul(&x, p); if elems.insert(y.clone()) { st.push(y); } } }
                    if core.len() != elems.len() { falsified("core_table", txt.clone(), format!("{} rows, the action generates a permutation group of order {}", core.len(), elems.len())); }
                    for tw in &test_words {
                        let all_fixed = (0..t.len()).all(|r| trace_from(t, r, tw) == Some(r));
                        let core_fixed = trace_from(&core, 0, tw) == Some(0);
                        if all_fixed != core_fixed { falsified("core_table", txt.clone(), format!("word {:?}: fixes all rows of the input = {}, fixes row 0 of the core = {}", tw, all_fixed, core_fixed)); break; }
                    }
                }
            }
            // ---- stabiliser of EVERY row (all rows of tables with at most 8 rows, else rows 0, 1 and the last one): generators fix the base row,
            // generate a subgroup of the right index, presentation has the right order
            let bases: Vec<usize> = if t.len() <= 8 { (0..t.len()).collect() } else { vec![0, 1, t.len() - 1] };
            for &bp in &bases {
            let txt = format!("{} base_row={}", txt, bp);
            match quiet(|| stabilizer(bp, rels.clone(), t)) {
                Err(e) => falsified("stabilizer", txt.clone(), format!("panic {}", e)),
                Ok((sgens, srels)) => {
                    for sg in &sgens { if trace_from(t, bp, &letters(sg)) != Some(bp) { falsified("stabilizer", txt.clone(), format!("generator {:?} does not fix the base row", letters(sg))); } }
                    match quiet(|| coset_table(n, rels, &sgens)) {
                        Ok(t2) => if t2.len() != t.len() { falsified("stabilizer", txt.clone(), format!("the generators generate a subgroup of index {}, the stabiliser has index {}", t2.len(), t.len())); },
                        Err(e) => falsified("stabilizer", txt.clone(), format!("coset enumeration over the generators panics: {}", e)),
                    }
                    if order % t.len() == 0 && sgens.len() <= 12 {
                        let want = order / t.len();
                        match quiet(|| coset_table(sgens.len(), &srels, &vec![])) {
                            Ok(t3) => if t3.len() != want { falsified("stabilizer", txt.clone(), format!("the presentation ({} generators, {} relators) has order {}, the stabiliser has order {}", sgens.len(), srels.len(), t3.len(), want)); },
                            Err(e) => falsified("stabilizer", txt.clone(), format!("the presentation does not enumerate: {}", e)),
                        }
                    }
                }
            }
            }
        }
        // ---- intersection table: orbit of (0, 0) in the product action; fixes row 0 <=> fixes row 0 of both
        for x in 0..tables.len().min(8) { for y in x..tables.len().min(8) {
            let (ta, tb) = (&tables[x].1, &tables[y].1);
            let txt = format!("{} sub_a={:?} sub_b={:?}", gens_txt, tables[x].0, tables[y].0);
            match quiet(|| intersection_table(ta, tb)) {
                Err(e) => falsified("intersection_table", txt, format!("panic {}", e)),
                Ok(tx) => {
                    let mut orbit: BTreeSet<(usize, usize)> = BTreeSet::new(); orbit.insert((0, 0)); let mut st = vec![(0usize, 0usize)];
                    while let Some((a, b)) = st.pop() { for g in ta.all_gens() { if let (Some(a2), Some(b2)) = (ta.get(a, g), tb.get(b, g)) { if orbit.insert((a2, b2)) { st.push((a2, b2)); } } } }
                    if tx.len() != orbit.len() { falsified("intersection_table", txt.clone(), format!("{} rows, the orbit of the pair of base rows has {} elements", tx.len(), orbit.len())); }
                    for tw in &test_words {
                        let both = trace_from(ta, 0, tw) == Some(0) && trace_from(tb, 0, tw) == Some(0);
                        let inter = trace_from(&tx, 0, tw) == Some(0);
                        if both != inter { falsified("intersection_table", txt.clone(), format!("word {:?}: fixes row 0 of both inputs = {}, of the intersection table = {}", tw, both, inter)); break; }
                    }
                }
            }
        } }
    }
}

// tables with more than 256 rows (regular actions of Z_300 and of the dihedral group of order 260): core_table and stabilizer must not
// depend on the row numbers being small
fn check_c13_large() {
    use rust_dsymbols::fpgroups::stabilizer::stabilizer;
    let w = |v: &[isize]| FreeWord::from(v.to_vec());
    let groups: Vec<(usize, Vec<FreeWord>, usize)> = vec![
        (1, vec![w(&vec![1isize; 300])], 300),
        (2, vec![w(&vec![1isize; 130]), w(&[2, 2]), w(&[1, 2, 1, 2])], 260),
    ];
    for (n, rels, order) in &groups {
        let (n, order) = (*n, *order);
        let txt = format!("gens={} relator lengths={:?} (regular action, {} rows)", n, rels.iter().map(|r| r.len()).collect::<Vec<_>>(), order);
        let t = match quiet(|| coset_table(n, rels, &vec![])) { Ok(t) => t, Err(e) => { falsified("coset_table", txt.clone(), format!("panic {}", e)); continue; } };
        if t.len() != order { falsified("coset_table", txt.clone(), format!("{} rows, the group has order {}", t.len(), order)); continue; }
        match quiet(|| core_table(&t)) {
            Err(e) => falsified("core_table", txt.clone(), format!("panic {}", e)),
            Ok(core) => {
                // the action is regular, so the permutation group it generates has as many elements as the table has rows
                if core.len() != order { falsified("core_table", txt.clone(), format!("{} rows, the action generates a permutation group of order {}", core.len(), order)); }
                else {
                    let mut test_words: Vec<Vec<isize>> = vec![vec![1; 299], vec![1; 300], vec![-1; 150], vec![1; 130], vec![1; 260]];
                    if n == 2 { test_words.extend(vec![vec![2, 2], vec![1, 2, 1, 2], vec![2, 1, 2], vec![1, 2], [vec![1; 129], vec![2, 1, 2]].concat(), [vec![1; 131], vec![2, -1, 2]].concat()]); }
                    for tw in &test_words {
                        let all_fixed = (0..t.len()).all(|r| trace_from(&t, r, tw) == Some(r));
                        let core_fixed = trace_from(&core, 0, tw) == Some(0);
                        if all_fixed != core_fixed { falsified("core_table", txt.clone(), format!("word of length {}: fixes all rows of the input = {}, fixes row 0 of the core = {}", tw.len(), all_fixed, core_fixed)); break; }
                    }
                }
            }
        }
        for &bp in &[0usize, 257] {
            match quiet(|| stabilizer(bp, rels.clone(), &t)) {
                Err(e) => falsified("stabilizer", format!("{} base_row={}", txt, bp), format!("panic {}", e)),
                Ok((sgens, _)) => { for sg in &sgens { if trace_from(&t, bp, &letters(sg)) != Some(bp) { falsified("stabilizer", format!("{} base_row={}", txt, bp), format!("a generator of length {} does not fix the base row", sg.len())); break; } } }
            }
        }
    }
}

fn main() {
    let prop = std::env::args().nth(1).unwrap_or_default();
    std::panic::set_hook(Box::new(|_| {}));
    start_watchdog();
    match prop.as_str() {
        "C01" => check_c01(), "C02" => { check_c02(); check_c02_graph(); check_c02_graph_partial(); check_c02_plain_r(); check_c02_mutators(); }, "C04" => { check_c04(); check_c04_automorphisms(); check_c04_minimal(); }, "C05" => { check_c05(); check_c05_covers(); check_c05_universal(); check_c05_count(); if thorough() { check_c05_sweep(); } },
        "C10" => check_c10(), "C11" => { check_c11(); check_c11_random(); check_c11_exhaustive(); check_c11_small_groups(); }, "C18" => { check_c18(); check_c18_exact(); check_c18_shapes(); check_c18_shapes_rational(); check_c18_modular(); }, "C20" => { check_c20(); check_c20_unions(); }, "C13" => { check_c13(); check_c13_large(); },
        _ => { eprintln!("unknown property"); std::process::exit(2); }
    }
    unsafe { println!("falsifier finished: {} discrepancies", COUNT); }
}
